"""RefModel: a small executable description of the *documented* semantics of model edits.

Plain dicts only.  Each transition returns one of
    "ok"      - the documentation determines the post-state, which is now in `self`
    "raises"  - the documentation says the call raises; state unchanged
    "unknown" - the documentation does not determine the result (caller resynchronises)
"""
from __future__ import annotations

import copy
import hashlib
import math

from . import gprtree

SBO = {"exchange": "SBO:0000627", "demand": "SBO:0000628", "sink": "SBO:0000632"}
PREFIX = {"exchange": "EX", "demand": "DM", "sink": "SK"}


def reverse_id(rid):
    return "_".join((rid, "reverse", hashlib.md5(rid.encode("utf-8")).hexdigest()[0:5]))


def _n(x):
    from .snapshot import _num

    return _num(x)


class Ref:
    def __init__(self):
        self.id = None
        self.name = None
        self.comps = {}
        self.notes = {}
        self.annotation = {}
        self.rxns = {}
        self.mets = {}
        self.genes = {}
        self.groups = {}
        self.obj = {}  # {rid: coef}; None = not reaction-style (set by a helper)
        self.direction = "max"
        self.user = {}  # user-added LP objects by name
        self.stack = []  # context stack: saved copies

    # ------------------------------------------------------------------ construction
    def clone(self, keep_stack=False):
        st, self.stack = self.stack, []
        c = copy.deepcopy(self)
        self.stack = st
        if keep_stack:
            c.stack = [s.clone() for s in st]
        return c

    @classmethod
    def from_content(cls, content, objective=None, user=None, stack=None, custom_obj=False):
        """Resynchronise from an observed snapshot (rule trees parsed from the observed text
        are not available in content, so the caller passes rule texts separately)."""
        raise NotImplementedError

    @classmethod
    def from_model(cls, model, user=None, stack=None):
        from .snapshot import _plain, objective

        r = cls()
        r.id, r.name = model.id, model.name
        r.comps = dict(model._compartments)
        r.notes, r.annotation = _plain(model.notes), _plain(model.annotation)
        for m in model.metabolites:
            r.mets[m.id] = {"name": m.name, "formula": m.formula, "charge": m.charge,
                            "compartment": m.compartment, "notes": _plain(m.notes),
                            "annotation": _plain(m.annotation)}
        for g in model.genes:
            r.genes[g.id] = {"name": g.name, "functional": g.functional, "notes": _plain(g.notes),
                             "annotation": _plain(g.annotation)}
        for x in model.reactions:
            try:
                tree = gprtree.parse(x.gene_reaction_rule)
            except ValueError:
                tree = None
            r.rxns[x.id] = {"lb": x.lower_bound, "ub": x.upper_bound,
                            "mets": {m.id: c for m, c in x._metabolites.items()},
                            "rule": tree, "name": x.name, "subsystem": x.subsystem,
                            "notes": _plain(x.notes), "annotation": _plain(x.annotation)}
        for g in model.groups:
            r.groups[g.id] = {"name": g.name, "kind": g.kind,
                              "members": sorted([type(x).__name__, str(x.id)] for x in g.members)}
        obj = objective(model)
        names = {}
        for x in model.reactions:
            names[x.id] = (x.id, 1)
            names[x.reverse_id] = (x.id, -1)
        r.obj = {}
        ok = obj["linear"]
        for vn, c in obj["coefs"].items():
            if vn not in names:
                ok = False
                break
        if ok:
            f = {names[vn][0]: c for vn, c in obj["coefs"].items() if names[vn][1] == 1}
            v = {names[vn][0]: c for vn, c in obj["coefs"].items() if names[vn][1] == -1}
            if set(f) == set(v) and all(f[k] == -v[k] for k in f):
                r.obj = dict(f)
            else:
                ok = False
        if not ok:
            r.obj = None
        r.direction = obj["direction"]
        r.user = copy.deepcopy(user) if user else {}
        r.stack = stack or []
        return r

    # ------------------------------------------------------------------ projections
    def gene_reactions(self, gid):
        return sorted(rid for rid, x in self.rxns.items() if gid in gprtree.genes(x["rule"]))

    def nonfunctional(self):
        return {g for g, d in self.genes.items() if not d["functional"]}

    def content(self):
        from .snapshot import _plain

        rx = {}
        for rid, x in self.rxns.items():
            gs = sorted(gprtree.genes(x["rule"]))
            rx[rid] = {
                "lb": _n(x["lb"]), "ub": _n(x["ub"]),
                "mets": dict(sorted((m, _n(c)) for m, c in x["mets"].items())),
                "rule_genes": gs, "rule_tt": gprtree.truth_table(x["rule"]), "genes": gs,
                "obj": 0.0 if self.obj is None else float(self.obj.get(rid, 0.0)),
                "name": x["name"], "subsystem": x["subsystem"],
                "notes": _plain(x["notes"]), "annotation": _plain(x["annotation"]),
            }
        mets = {}
        for mid, m in self.mets.items():
            mets[mid] = {
                "name": m["name"], "formula": m["formula"], "charge": _n(m["charge"]),
                "compartment": m["compartment"],
                "reactions": sorted(rid for rid, x in self.rxns.items() if mid in x["mets"]),
                "notes": _plain(m["notes"]), "annotation": _plain(m["annotation"]),
            }
        genes = {}
        for gid, g in self.genes.items():
            genes[gid] = {"name": g["name"], "functional": g["functional"],
                          "reactions": self.gene_reactions(gid),
                          "notes": _plain(g["notes"]), "annotation": _plain(g["annotation"])}
        groups = {gid: {"name": g["name"], "kind": g["kind"], "members": sorted(g["members"])}
                  for gid, g in self.groups.items()}
        comps = {m["compartment"]: self.comps.get(m["compartment"], "")
                 for m in self.mets.values() if m["compartment"] is not None}
        return {"id": self.id, "name": self.name, "compartments": _plain(comps),
                "notes": _plain(self.notes), "annotation": _plain(self.annotation),
                "reactions": rx, "metabolites": mets, "genes": genes, "groups": groups}

    # ------------------------------------------------------------------ helpers
    def _ensure_genes(self, tree):
        for g in sorted(gprtree.genes(tree)):
            self.genes.setdefault(g, {"name": "", "functional": True, "notes": {}, "annotation": {}})

    def _drop_member(self, typ, oid):
        for g in self.groups.values():
            g["members"] = [m for m in g["members"] if m != [typ, oid]]

    def _rename_member(self, typ, old, new):
        for g in self.groups.values():
            g["members"] = sorted([t, new] if [t, i] == [typ, old] else [t, i] for t, i in g["members"])

    def _remove_rxn(self, rid, remove_orphans=False):
        x = self.rxns.pop(rid)
        if self.obj is not None:
            self.obj.pop(rid, None)
        self._drop_member("Reaction", rid)
        if remove_orphans:
            for mid in list(x["mets"]):
                if mid in self.mets and not any(mid in y["mets"] for y in self.rxns.values()):
                    self._remove_met_nd(mid)
            for gid in sorted(gprtree.genes(x["rule"])):
                if gid in self.genes and not self.gene_reactions(gid):
                    del self.genes[gid]
                    self._drop_member("Gene", gid)

    def _remove_met_nd(self, mid):
        """non-destructive metabolite removal"""
        for y in self.rxns.values():
            y["mets"].pop(mid, None)
        self.mets.pop(mid, None)
        self._drop_member("Metabolite", mid)

    def user_var_names_in_use(self):
        used = set()
        for u in self.user.values():
            if u["kind"] == "con":
                used |= set(u["coefs"])
        return used

    def rxn_in_user_cons(self, rid):
        used = self.user_var_names_in_use()
        return rid in used or reverse_id(rid) in used

    # ------------------------------------------------------------------ transitions
    def apply(self, op, env):
        fn = getattr(self, "t_" + op["op"], None)
        if fn is None:
            return "unknown"
        # identifiers with whitespace are rejected by the solver interface; what the call does then is not documented
        def ws(x):
            return any(ch.isspace() for ch in str(x))

        if ws(op.get("new", "")) or any(ws(x.get("id", "")) for x in op.get("rxns", []) + op.get("mets", [])
                                        if isinstance(x, dict)):
            return "unknown"
        if len(str(op.get("new", ""))) > 241 or any(len(str(x.get("id", ""))) > 241 for x in op.get("rxns", []) if isinstance(x, dict)):
            return "unknown"  # beyond the solver's name limit
        if any(ws(mr.get("id", "")) for x in op.get("rxns", []) if isinstance(x, dict)
               for mr, _ in x.get("mets", []) if isinstance(mr, dict) and mr.get("t") == "new"):
            return "unknown"
        return fn(op, env)

    def t_set_bounds(self, op, env):
        x = self.rxns[op["r"]]
        how = op["how"]
        lb, ub = op.get("lb"), op.get("ub")
        if how == "bounds":
            if not lb <= ub:  # also: not a number
                return "raises"
            x["lb"], x["ub"] = lb, ub
        elif how == "lb":
            if not lb <= x["ub"]:
                return "raises"
            x["lb"] = lb
        else:
            if not x["lb"] <= ub:
                return "raises"
            x["ub"] = ub
        return "ok"

    def t_knock_out_rxn(self, op, env):
        x = self.rxns[op["r"]]
        x["lb"], x["ub"] = 0, 0
        return "ok"

    def _add_mets(self, rid, items, combine, sign=1):
        """items: [[metref, coeff]]; metref: {"t": own|id|copy|new|foreign, "id":..., (attrs)}"""
        x = self.rxns[rid]
        ids = [mr["id"] for mr, _ in items]
        if len(set(ids)) != len(ids):
            return "unknown"
        for mr, c in items:
            mid = mr["id"]
            if mid not in x["mets"] and mid not in self.mets and mr["t"] == "id":
                return "unknown"  # KeyError part-way: documented to raise, state not determined
        for mr, c in items:
            mid = mr["id"]
            if mr["t"] == "new" and mid not in self.mets and (not mid or any(ch.isspace() for ch in mid)):
                return "raises"  # the model refuses the new metabolite: nothing changes
        for mr, c in items:
            mid, c = mr["id"], sign * c
            if mr["t"] == "foreign" and mid not in self.mets and mid not in x["mets"]:
                return "unknown"  # attributes come from the other model's object: judged by invariants + isolation
            if mid in x["mets"]:
                x["mets"][mid] = x["mets"][mid] + c if combine else c
            else:
                if mid not in self.mets:
                    self.mets[mid] = {"name": mr.get("name", ""), "formula": mr.get("formula"),
                                      "charge": mr.get("charge"), "compartment": mr.get("compartment"),
                                      "notes": {}, "annotation": {}}
                x["mets"][mid] = c
        for mid in [m for m, c in x["mets"].items() if c == 0]:
            del x["mets"][mid]
        return "ok"

    def t_add_mets(self, op, env):
        return self._add_mets(op["r"], op["mets"], op.get("combine", True), 1)

    def _foreign_mets_into(self, env, ymets):
        """A reaction of another live model as operand: metabolites the model lacks are copied with their attributes."""
        fm = getattr(env, "foreign_mets", None) or {}
        for mid in ymets:
            if mid not in self.mets:
                if mid not in fm:
                    return False
                self.mets[mid] = copy.deepcopy(fm[mid])
        return True

    def t_sub_mets(self, op, env):
        return self._add_mets(op["r"], op["mets"], op.get("combine", True), -1)

    def t_imul(self, op, env):
        x = self.rxns[op["r"]]
        k = op["k"]
        x["mets"] = {m: c * k for m, c in x["mets"].items()}
        if k < 0:
            x["lb"], x["ub"] = -x["ub"], -x["lb"]
        return "ok"

    def t_iadd(self, op, env):
        x, y = self.rxns[op["r"]], env.other_rxn(op)
        if y is None:
            return "unknown"
        ymets = dict(y["mets"])
        if op.get("src") == "foreign":
            if not self._foreign_mets_into(env, ymets):
                return "unknown"
        for mid in ymets:
            if mid not in self.mets:
                return "unknown"
        for mid, c in ymets.items():
            x["mets"][mid] = x["mets"].get(mid, 0) + c if mid in x["mets"] else c
        for mid in [m for m, c in x["mets"].items() if c == 0]:
            del x["mets"][mid]
        r1, r2 = x["rule"], y["rule"]
        if r1 is not None and r2 is not None:
            x["rule"] = ["and", r1, copy.deepcopy(r2)]
        elif r2 is not None:
            x["rule"] = copy.deepcopy(r2)
        self._ensure_genes(x["rule"])
        return "ok"

    def t_isub(self, op, env):
        x, y = self.rxns[op["r"]], env.other_rxn(op)
        if y is None:
            return "unknown"
        ymets = dict(y["mets"])
        if op.get("src") == "foreign":
            if not self._foreign_mets_into(env, ymets):
                return "unknown"
        for mid in ymets:
            if mid not in self.mets:
                return "unknown"
        for mid, c in ymets.items():
            x["mets"][mid] = x["mets"][mid] + (-c) if mid in x["mets"] else -c
        for mid in [m for m, c in x["mets"].items() if c == 0]:
            del x["mets"][mid]
        return "ok"

    def t_set_rule(self, op, env):
        x = self.rxns[op["r"]]
        if op.get("malformed"):
            x["rule"] = None  # documented by the test-suite: warn, rule becomes empty
            return "ok"
        x["rule"] = copy.deepcopy(op["tree"])
        self._ensure_genes(x["rule"])
        return "ok"

    t_set_gpr = t_set_rule

    def t_rename_rxn(self, op, env):
        old, new = op["r"], op["new"]
        if new == old:
            return "ok"
        if new in self.rxns:
            return "raises"
        self.rxns = {(new if k == old else k): v for k, v in self.rxns.items()}
        if self.obj is not None and old in self.obj:
            self.obj[new] = self.obj.pop(old)
        self._rename_member("Reaction", old, new)
        ren = {old: new, reverse_id(old): reverse_id(new)}
        for u in self.user.values():
            if u["kind"] == "con":
                u["coefs"] = {ren.get(k, k): v for k, v in u["coefs"].items()}
        return "ok"

    def t_rename_met(self, op, env):
        old, new = op["m"], op["new"]
        if new == old:
            return "ok"
        if new in self.mets:
            return "raises"
        self.mets = {(new if k == old else k): v for k, v in self.mets.items()}
        for x in self.rxns.values():
            if old in x["mets"]:
                x["mets"] = {(new if k == old else k): v for k, v in x["mets"].items()}
        self._rename_member("Metabolite", old, new)
        return "ok"

    def t_set_attr(self, op, env):
        tbl = {"rxn": self.rxns, "met": self.mets, "gene": self.genes}[op["kind"]]
        tbl[op["id"]][op["attr"]] = op["value"]
        return "ok"

    def t_edit_dict(self, op, env):
        tbl = {"rxn": self.rxns, "met": self.mets, "gene": self.genes, "model": None}[op["kind"]]
        tgt = (self.__dict__ if tbl is None else tbl[op["id"]])[op["which"]]
        if op.get("nested"):
            if not isinstance(tgt.get(op["key"]), list):
                return "unknown"
            tgt[op["key"]] = list(tgt[op["key"]]) + [op["value"]]
            return "ok"
        tgt[op["key"]] = copy.deepcopy(op["value"])
        return "ok"

    def t_add_metabolites(self, op, env):
        ids = [m["id"] for m in op["mets"]]
        new = [m for m in op["mets"] if m["id"] not in self.mets]
        if op.get("twice") and op["mets"] and op["mets"][0]["id"] not in self.mets:
            return "raises"  # the same new metabolite listed twice: duplicate identifier
        if len({m["id"] for m in new}) != len(new):
            return "unknown"
        for m in new:
            self.mets[m["id"]] = {"name": m.get("name", ""), "formula": m.get("formula"),
                                  "charge": m.get("charge"), "compartment": m.get("compartment"),
                                  "notes": {}, "annotation": {}}
        return "ok"

    def t_remove_metabolites(self, op, env):
        for mid in op["ms"]:
            if mid not in self.mets:
                continue
            if op.get("destructive"):
                for rid in [rid for rid, x in self.rxns.items() if mid in x["mets"]]:
                    self._remove_rxn(rid)
                self.mets.pop(mid, None)
                self._drop_member("Metabolite", mid)
            else:
                self._remove_met_nd(mid)
        return "ok"

    def t_add_boundary(self, op, env):
        mid, typ = op["m"], op["type"]
        brand_new = None
        if mid not in self.mets:
            nm = op.get("new_met")
            if not nm or not mid or any(ch.isspace() for ch in mid):
                return "unknown"
            # a metabolite object the model does not have yet: it comes in with the boundary reaction - or not at all
            brand_new = {"name": nm.get("name", ""), "formula": nm.get("formula"), "charge": nm.get("charge"),
                         "compartment": nm.get("compartment"), "notes": {}, "annotation": {}}
        the_met = brand_new if brand_new is not None else self.mets[mid]
        lb = env.cfg_lb if op.get("lb") is None else op["lb"]
        ub = env.cfg_ub if op.get("ub") is None else op["ub"]
        rid, sbo = op.get("rid"), op.get("sbo")
        if typ == "exchange":
            ext = env.observed.get("external")
            if ext is None:
                return "unknown"
            if the_met["compartment"] != ext:
                return "raises"
        if typ in PREFIX:
            if typ == "demand":
                lb = 0
            if rid is None:
                rid = f"{PREFIX[typ]}_{mid}"
            if sbo is None:
                sbo = SBO[typ]
        if rid is None:
            return "raises"
        if rid in self.rxns:
            return "raises"
        if lb > ub:
            return "unknown"
        if brand_new is not None:
            self.mets[mid] = brand_new
        self.rxns[rid] = {"lb": lb, "ub": ub, "mets": {mid: -1}, "rule": None,
                          "name": f"{the_met['name']} {typ}", "subsystem": "",
                          "notes": {}, "annotation": ({"sbo": sbo} if sbo else {})}
        return "ok"

    def t_add_reactions(self, op, env):
        if any(s["lb"] > s["ub"] for s in op["rxns"]):
            return "raises"  # such a reaction cannot even be constructed
        specs = [s for s in op["rxns"] if s["id"] not in self.rxns]
        if len({s["id"] for s in specs}) != len(specs):
            return "raises"
        if any(mr["t"] == "foreign" and mr["id"] not in self.mets for s in specs for mr, c in s["mets"] if c != 0):
            return "unknown"  # attributes travel with the other model's object: invariants + isolation judge it
        for s in specs:
            mets = {}
            for mr, c in s["mets"]:
                if c == 0:
                    continue  # a zero coefficient never enters the (still model-less) reaction
                mid = mr["id"]
                if mid not in self.mets:
                    self.mets[mid] = {"name": mr.get("name", ""), "formula": mr.get("formula"),
                                      "charge": mr.get("charge"), "compartment": mr.get("compartment"),
                                      "notes": {}, "annotation": {}}
                mets[mid] = c
            self.rxns[s["id"]] = {"lb": s["lb"], "ub": s["ub"], "mets": mets,
                                  "rule": copy.deepcopy(s.get("tree")), "name": s.get("name", ""),
                                  "subsystem": s.get("subsystem", ""), "notes": {}, "annotation": {}}
            self._ensure_genes(s.get("tree"))
        return "ok"

    def t_remove_reactions(self, op, env):
        if op.get("bad_tail"):
            return "unknown"  # raises part-way: how much was removed is not documented; the invariants judge the result
        for rid in op["rs"]:
            if rid in self.rxns:
                self._remove_rxn(rid, op.get("remove_orphans", False))
        return "ok"

    def t_set_objective(self, op, env):
        how, items = op["how"], op["items"]
        if how == "dict":
            for rid, _ in items:
                if rid not in self.rxns:
                    return "unknown"  # incl. "det:<key>": a reaction that is not in the model
            self.obj = {rid: c for rid, c in items if c != 0}
            return "ok"
        if how in ("expr", "optlang"):
            for rid, _ in items:
                if rid not in self.rxns:
                    return "unknown"
            obj = {}
            for rid, c in items:
                obj[rid] = obj.get(rid, 0) + c
            self.obj = {k: v for k, v in obj.items() if v != 0}
            # a bare expression becomes an objective with optlang's default direction; a ready-made objective brings its own
            self.direction = "max" if how == "expr" else op.get("dir", "max")
            return "ok"
        if how == "index":
            order = env.observed.get("rxn_order") or []
            try:
                rids = [order[i] for i in items]
            except IndexError:
                return "unknown"
        else:
            rids = list(items)
        for rid in rids:
            if rid not in self.rxns:
                return "raises" if how in ("id", "list") else "unknown"
        self.obj = {rid: 1 for rid in rids}
        return "ok"

    def t_set_direction(self, op, env):
        v = op["dir"].lower()
        if v.startswith("max"):
            self.direction = "max"
        elif v.startswith("min"):
            self.direction = "min"
        else:
            return "raises"
        return "ok"

    def t_set_obj_coef(self, op, env):
        if self.obj is None:
            return "unknown"
        if op["v"] == 0:
            self.obj.pop(op["r"], None)
        else:
            self.obj[op["r"]] = op["v"]
        return "ok"

    def t_add_cons(self, op, env):
        if op["name"] in self.user or op["name"] in self.mets:
            return "unknown"
        coefs = {}
        for rid, c in op["expr"]:
            if rid not in self.rxns:
                return "unknown"
            coefs[rid] = coefs.get(rid, 0) + c
            coefs[reverse_id(rid)] = coefs.get(reverse_id(rid), 0) - c
        for vn, c in op.get("vars", []):
            if vn not in self.user or self.user[vn]["kind"] != "var":
                return "unknown"
            coefs[vn] = coefs.get(vn, 0) + c
        lb = -math.inf if op.get("lb") is None else op["lb"]
        ub = math.inf if op.get("ub") is None else op["ub"]
        self.user[op["name"]] = {"kind": "con", "lb": lb, "ub": ub,
                                 "coefs": {k: v for k, v in coefs.items() if v != 0}}
        return "ok"

    def t_add_var(self, op, env):
        if op["name"] in self.user or op["name"] in self.rxns:
            return "unknown"
        lb = -math.inf if op.get("lb") is None else op["lb"]
        ub = math.inf if op.get("ub") is None else op["ub"]
        self.user[op["name"]] = {"kind": "var", "lb": lb, "ub": ub, "coefs": {}}
        return "ok"

    def t_remove_cons_vars(self, op, env):
        for n in op["names"]:
            if n not in self.user:
                return "unknown"
        for n in op["names"]:
            del self.user[n]
        return "ok"

    def _knock_gene(self, gid):
        self.genes[gid]["functional"] = False
        absent = self.nonfunctional()
        for rid in self.gene_reactions(gid):
            x = self.rxns[rid]
            if not gprtree.evaluate(x["rule"], absent):
                x["lb"], x["ub"] = 0, 0

    def t_knock_out_gene(self, op, env):
        self._knock_gene(op["g"])
        return "ok"

    def t_set_functional(self, op, env):
        if not isinstance(op["v"], bool):
            return "unknown"  # raises ValueError, except inside a context when the value compares equal
        self.genes[op["g"]]["functional"] = op["v"]
        return "ok"

    def t_knock_out_model_genes(self, op, env):
        gids = []
        order = env.observed.get("gene_order") or []
        for g in op["genes"]:
            if isinstance(g, int):
                try:
                    g = order[g]
                except IndexError:
                    return "raises"
            if g not in self.genes:
                return "raises"  # every entry is looked up before any gene is touched
            gids.append(g)
        for g in gids:
            self._knock_gene(g)
        absent = self.nonfunctional()
        hit = set()
        for g in gids:
            hit |= set(self.gene_reactions(g))
        env.expected_return = sorted(r for r in hit if not gprtree.evaluate(self.rxns[r]["rule"], absent))
        return "ok"

    def t_remove_genes(self, op, env):
        gone = set(op["genes"])
        if not gone <= set(self.genes):
            return "unknown"
        env.resync_rules = set()
        to_remove = []
        for rid, x in self.rxns.items():
            if x["rule"] is None:
                continue
            new, ok = gprtree.remove(x["rule"], gone)
            if not ok:
                if op.get("remove_reactions", True):
                    to_remove.append(rid)
                else:
                    env.resync_rules.add(rid)  # resulting rule undocumented
                    x["rule"] = None
            else:
                x["rule"] = new
        for g in gone:
            del self.genes[g]
            self._drop_member("Gene", g)
        for rid in to_remove:
            self._remove_rxn(rid)
        return "ok"

    def t_rename_genes(self, op, env):
        mapping = {k: v for k, v in op["map"].items() if k in self.genes}
        if len(set(mapping.values())) != len(mapping) or set(mapping.values()) & set(mapping):
            return "unknown"
        merged = False
        for old, new in mapping.items():
            if new in self.genes:
                merged = True
        if merged:
            return "unknown"
        for old, new in mapping.items():
            self.genes = {(new if k == old else k): v for k, v in self.genes.items()}
            self._rename_member("Gene", old, new)
        for x in self.rxns.values():
            x["rule"] = gprtree.substitute(x["rule"], mapping)
        return "ok"

    def t_medium(self, op, env):
        ex = env.observed.get("exchanges")
        if ex is None:
            return "unknown"
        med = dict(op["medium"])
        for rid in med:
            if rid not in self.rxns:
                return "unknown"

        def set_active(x, bound):
            if any(c < 0 for c in x["mets"].values()):
                if -bound > x["ub"]:
                    return False
                x["lb"] = -bound
            elif any(c >= 0 for c in x["mets"].values()):
                if x["lb"] > bound:
                    return False
                x["ub"] = bound
            return True

        for rid, b in med.items():
            if not set_active(self.rxns[rid], b):
                return "unknown"
        for rid in ex:
            if rid in med or rid not in self.rxns:
                continue
            x = self.rxns[rid]
            has_react = any(c < 0 for c in x["mets"].values())
            has_prod = any(c >= 0 for c in x["mets"].values())
            # close import, leave export untouched
            if has_react:
                if x["lb"] < 0:
                    if 0 > x["ub"]:
                        return "unknown"
                    x["lb"] = 0.0
            elif has_prod:
                if x["ub"] > 0:
                    if x["lb"] > 0:
                        return "unknown"
                    x["ub"] = 0.0
        return "ok"

    def t_build_from_string(self, op, env):
        if op.get("bad_term"):
            return "unknown"  # the parser gives up part-way: what is left behind is not documented (inside a context C03 still applies)
        x = self.rxns[op["r"]]
        arrow = op["arrow"]
        if arrow == "<=>":
            x["lb"], x["ub"] = env.cfg_lb, env.cfg_ub
        elif arrow == "-->":
            x["lb"], x["ub"] = 0, env.cfg_ub
        else:
            x["lb"], x["ub"] = env.cfg_lb, 0
        mets = {}
        for side, sign in (("left", -1), ("right", 1)):
            for mid, n in op[side]:
                if mid not in self.mets:
                    self.mets[mid] = {"name": "", "formula": None, "charge": None, "compartment": None,
                                      "notes": {}, "annotation": {}}
                num = float(n) * sign if n is not None else sign
                mets[mid] = mets.get(mid, 0) + num if mid in mets else num
        x["mets"] = {m: c for m, c in mets.items() if c != 0}
        return "ok"

    def t_optimize(self, op, env):
        return "ok"

    t_slim_optimize = t_optimize
    t_repair = t_optimize
    t_solver = t_optimize
    t_det_mutate = t_optimize  # a detached object is edited: no model may change
    t_removed_mutate = t_optimize  # a removed reaction object is edited: the model it came from must not change
    t_ctx_removed_edit = t_optimize  # an object removed inside the open context is edited: nothing in the model changes now
    t_prune = t_optimize  # returns a new model; the input is left alone
    t_config_bounds = t_optimize  # a process-global default: no model changes

    def t_tolerance(self, op, env):
        return "ok"

    def t_compartments(self, op, env):
        self.comps.update(op["value"])
        return "ok"

    def t_add_groups(self, op, env):
        for g in op["groups"]:
            if g["id"] in self.groups:
                continue
            for t, i in g["members"]:
                tbl = {"Reaction": self.rxns, "Metabolite": self.mets, "Gene": self.genes}[t]
                if i not in tbl:
                    return "unknown"
            self.groups[g["id"]] = {"name": g.get("name", ""), "kind": g.get("kind", "collection"),
                                    "members": sorted([t, i] for t, i in g["members"])}
        return "ok"

    def t_group_edit(self, op, env):
        g = self.groups.get(op["gid"])
        if g is None:
            return "unknown"
        how = op["how"]
        if how == "add":
            for t, i in op["members"]:
                if i not in {"Reaction": self.rxns, "Metabolite": self.mets, "Gene": self.genes}[t]:
                    return "unknown"
            g["members"] = sorted({(t, i) for t, i in g["members"]} | {(t, i) for t, i in op["members"]})
            g["members"] = [list(x) for x in g["members"]]
        elif how == "remove":
            rm = {(t, i) for t, i in op["members"]}
            g["members"] = [m for m in g["members"] if tuple(m) not in rm]
        elif how == "kind":
            if op["value"] not in ("collection", "classification", "partonomy"):
                return "raises"
            g["kind"] = op["value"]
        else:
            g["name"] = op["value"]
        return "ok"

    def t_remove_groups(self, op, env):
        for gid in op["ids"]:
            self.groups.pop(gid, None)
        return "ok"

    def t_readd_reaction(self, op, env):
        spec = getattr(env, "readd_spec", None)
        if spec is None or op["rid"] in self.rxns:
            return "unknown"
        x = copy.deepcopy(spec["x"])
        for m in x["mets"]:
            if m not in self.mets:
                self.mets[m] = copy.deepcopy(spec["mets"][m])
        self.rxns[op["rid"]] = x
        self._ensure_genes(x["rule"])
        return "ok"

    def t_helper(self, op, env):
        return "unknown"  # content unchanged (judged by the engine); LP objects recorded from observation

    def t_merge(self, op, env):
        """Documented: reactions of `right` whose id is new are added (with their metabolites and genes); existing ids
        are ignored, or - with prefix_existing - added under the prefixed id; objective left/right/sum."""
        R = op["right"]
        prefix = op.get("prefix")
        objective = op.get("objective", "left")
        if prefix is not None and objective != "left":
            return "unknown"  # which reaction the right objective lands on after prefixing is undocumented
        if not op.get("inplace", True):
            return "ok"  # left untouched; the result is judged separately
        rmets = {m["id"]: m for m in R["mets"]}
        added = {}
        for x in R["rxns"]:
            rid = x["id"]
            if rid in self.rxns:
                if prefix is None:
                    continue
                rid = f"{prefix}{rid}"
                if rid in self.rxns or rid in added:
                    return "unknown"
            added[rid] = x
        for rid, x in added.items():
            mets = {}
            for mid, c in x["mets"]:
                if mid not in self.mets:
                    m = rmets[mid]
                    self.mets[mid] = {"name": m.get("name", ""), "formula": m.get("formula"), "charge": m.get("charge"),
                                      "compartment": m.get("compartment"), "notes": {}, "annotation": {}}
                mets[mid] = c
            self.rxns[rid] = {"lb": x["lb"], "ub": x["ub"], "mets": mets, "rule": copy.deepcopy(x.get("tree")),
                              "name": x.get("name", ""), "subsystem": x.get("subsystem", ""), "notes": {}, "annotation": {}}
            self._ensure_genes(x.get("tree"))
        if objective == "right":
            if self.obj is None:
                return "unknown"
            self.obj = {k: v for k, v in R["objective"].items() if k in self.rxns}
            self.direction = R.get("direction", "max")
        elif objective == "sum":
            if self.obj is None or not (self.direction == "max" and R.get("direction", "max") == "max"):
                return "unknown"  # the direction of a sum of objectives with different/min directions is undocumented
            for k, v in R["objective"].items():
                if k in self.rxns:
                    self.obj[k] = self.obj.get(k, 0) + v
            self.obj = {k: v for k, v in self.obj.items() if v != 0}
        return "ok"

    def t_restart(self, op, env):
        return "ok"  # the caller replaces the reference by its projection

    # contexts: the specification of `with model:` is "pop restores the copy"
    def t_enter(self, op, env):
        self.stack.append(self.clone())
        return "ok"

    def t_exit(self, op, env):
        if not self.stack:
            return "unknown"
        saved = self.stack.pop()
        st = self.stack
        self.__dict__.update(saved.__dict__)
        self.stack = st
        return "ok"

    t_exit_exc = t_exit
