"""Campaign driver: the VIOLATION / KNOWN-FINDING / evidence contract for every property."""
from __future__ import annotations

import importlib
import json
import os
import signal
import sys
import time
from collections import Counter

from . import core
from .core import H, RunTimeout
from .shrink import shrink

KNOWN_FILE = os.path.join(core.VERIF, "known_findings.json")


def log(*a):
    if not os.environ.get("VERIF_QUIET"):
        print(*a, flush=True)


def load_props():
    from .props import PROPS

    return PROPS


def load_findings(prop):
    if not os.path.exists(KNOWN_FILE):
        return []
    with open(KNOWN_FILE) as fh:
        allf = json.load(fh)
    out = []
    for f in allf.get("findings", []):
        if f["property"] == prop:
            out.append(f)
        elif f["status"] == "open" and prop in f.get("applies_to", []):
            # the same recorded history also reaches this property's workload: reproduced under its own property's oracle,
            # reported and quarantined here as well
            g = dict(f)
            g["_home"] = f["property"]
            out.append(g)
    return out


def _engine(name):
    return importlib.import_module(f"sim.engines.{name}")


def _replay(engine, trace, prop, run_cfg):
    signal.signal(signal.SIGALRM, core._alarm)
    signal.alarm(run_cfg.get("run_timeout", 60) * 2)
    try:
        return engine.replay(trace, prop, run_cfg)
    finally:
        signal.alarm(0)


def replay_file(prop, path):
    """./check <prop> --replay <file>: execute exactly what the file says."""
    spec = load_props()[prop]
    engine = _engine(spec["engine"])
    with open(path) as fh:
        body = json.load(fh)
    trace = body["trace"]
    run_cfg = dict(spec.get("run_cfg", {}))
    run_cfg["quarantine"] = []
    run_cfg["verbose"] = not os.environ.get("VERIF_QUIET")
    try:
        res = _replay(engine, trace, prop, run_cfg)
    except RunTimeout:
        print(f"replay timed out: {path}")
        return 2
    want = body.get("oracle")
    if res.violation and (want is None or res.violation["oracle"] == want):
        log(json.dumps(res.violation, indent=1, default=repr))
        print(f"VIOLATION property={prop} replay={path}")
        return 1
    if res.violation:
        log("different violation class:", json.dumps(res.violation, default=repr))
        print(f"VIOLATION property={prop} replay={path}")
        return 1
    log(f"replay clean: {path} (digest {res.trace_digest})")
    return 0


def run_check(prop, tier):
    t0 = time.time()
    spec = load_props()[prop]
    engine = _engine(spec["engine"])
    verif_seed = int(os.environ.get("VERIF_SEED", core.DEFAULT_SEEDS[tier]))
    print(f"VERIF_SEED={verif_seed} property={prop} tier={tier} engine={spec['engine']}", flush=True)
    run_cfg = dict(spec.get("run_cfg", {}))
    run_cfg.update(spec.get(f"{tier}_cfg", {}))
    n_runs = int(os.environ.get("VERIF_RUNS", spec[f"{tier}_runs"]))
    wall_cap = float(os.environ.get("VERIF_WALL_CAP", spec.get(f"{tier}_wall_cap", 900)))

    exit_code = 0
    violations_out = []  # (path, violation)
    known_lines = []
    kf_report = {}

    # 1. known findings: open ones must still reproduce to be reported and to switch on their
    #    quarantine trigger; fixed ones are the regression corpus and must pass.
    findings = [] if os.environ.get("VERIF_NO_KNOWN") else load_findings(prop)
    quarantine = []
    regress_replayed = 0
    for f in findings:
        rp = os.path.join(core.VERIF, f["replay"]) if f.get("replay") else None
        if f["status"] == "open":
            still = True
            if rp and os.path.exists(rp):
                body = json.load(open(rp))
                cfg0 = dict(run_cfg)
                cfg0["quarantine"] = []
                try:
                    res = _replay(engine, body["trace"], f.get("_home", prop), cfg0)
                    still = bool(res.violation) and res.violation["oracle"] == f["oracle"]
                except RunTimeout:
                    still = f["oracle"] == "liveness"
            if still:
                line = f"KNOWN-FINDING: property={prop} {f['id']} {f['what']}"
                print(line, flush=True)
                known_lines.append(line)
                if f.get("trigger"):
                    quarantine.append(f["trigger"])
                kf_report[f["id"]] = {"reproduced": True, "trigger": f.get("trigger")}
            else:
                kf_report[f["id"]] = {"reproduced": False, "note": "no longer fails; quarantine off"}
        elif f["status"] == "fixed" and rp and os.path.exists(rp):
            body = json.load(open(rp))
            cfg0 = dict(run_cfg)
            cfg0["quarantine"] = []
            regress_replayed += 1
            try:
                res = _replay(engine, body["trace"], prop, cfg0)
                bad = bool(res.violation)
            except RunTimeout:
                bad = True
            if bad:
                print(f"VIOLATION property={prop} replay={rp}", flush=True)
                violations_out.append((rp, res.violation if res else None))
                exit_code = 1
    run_cfg["quarantine"] = quarantine

    # 2. the seeded search
    results, counters = core.run_campaign(engine, prop, tier, verif_seed, n_runs, run_cfg, wall_cap)

    stats = Counter()
    states, inter = set(), set()
    trace_digests = set()
    nontrivial_digests = set()
    steps = 0
    sim_time = 0.0
    samples = []
    harness_errors, timeouts, aborts = [], [], []
    viol_runs = []
    n = 0
    run_digests = []
    sample_pool = []
    for d in results:
        n += 1
        run_digests.append((d["i"], d.get("trace_digest")))
        stats.update(d.get("stats") or {})
        steps += d.get("steps", 0)
        sim_time += d.get("sim_time", 0.0) or 0.0
        states.update(d.get("states") or [])
        inter.update(d.get("inter") or [])
        td = d.get("trace_digest")
        if td:
            trace_digests.add(td)
            if d.get("nontrivial"):
                nontrivial_digests.add(td)
        if d.get("error"):
            harness_errors.append({"i": d["i"], "seed": d["seed"], "error": d["error"][-1500:]})
        if d.get("timeout"):
            timeouts.append({"i": d["i"], "seed": d["seed"]})
        if d.get("abort"):
            aborts.append({"i": d["i"], "seed": d["seed"], "status": d.get("status")})
        if d.get("violation"):
            if len(viol_runs) < 200:
                viol_runs.append(d)
        elif d.get("trace") is not None and not d.get("error"):
            if len(samples) < 4:
                samples.append(engine.sample_of(d["trace"]))
            elif len(sample_pool) < 1:
                sample_pool.append(d["trace"])

    # 3. minimise, confirm in a fresh interpreter, match against open findings, report
    seen_classes = set()
    signal.signal(signal.SIGALRM, core._alarm)
    leak = Counter()
    for d in viol_runs:
        v = d["violation"]
        c = v.get("culprit")
        key = (v["oracle"], c.get("op") if isinstance(c, dict) else None, engine.subclass_of(v) if hasattr(engine, "subclass_of") else None)
        if key in seen_classes or len(seen_classes) >= int(os.environ.get("VERIF_MAX_REPORTS", 6)):
            continue
        seen_classes.add(key)
        trace = d["trace"]
        orig_path = core.write_replay(prop, trace, v, verif_seed, d["seed"], tag="-orig")
        try:
            small, used = shrink(engine, trace, prop, v["oracle"], run_cfg,
                                 max_replays=int(os.environ.get("VERIF_SHRINK", 400)))
            res = _replay(engine, small, prop, run_cfg)
        except (RunTimeout, Exception) as e:  # keep the original
            small, res, used = trace, None, -1
        if res is not None and res.violation and res.violation["oracle"] == v["oracle"]:
            v2 = res.violation
            path = core.write_replay(prop, small, v2, verif_seed, d["seed"],
                                     minimised_from=os.path.basename(orig_path))
            ok, out = core.replay_in_fresh_interpreter(path, prop)
            if not ok:
                log(f"minimised trace unstable in fresh interpreter; keeping original ({out[-300:]})")
                path, small, v2 = orig_path, trace, v
        else:
            path, small, v2 = orig_path, trace, v
        matched = None
        for f in findings:
            if f["status"] == "open" and (f["oracle"] == v2["oracle"] or f.get("_home")) and f.get("trigger"):
                if engine.match_finding(f["trigger"], small, v2):
                    matched = f
                    break
        if matched:
            line = f"KNOWN-FINDING: property={prop} {matched['id']} {matched['what']}"
            if line not in known_lines:
                print(line, flush=True)
                known_lines.append(line)
            leak[matched["id"]] += 1
        else:
            print(f"VIOLATION property={prop} replay={path}", flush=True)
            log("  ", json.dumps(v2, default=repr)[:600])
            violations_out.append((path, v2))
            exit_code = 1

    for e in harness_errors[:5]:
        print(f"HARNESS-ERROR run={e['i']} seed={e['seed']}: {e['error'][-600:]}", file=sys.stderr)
    if harness_errors and len(harness_errors) > 0.02 * max(1, n):
        print(f"HARNESS-ERROR rate too high: {len(harness_errors)}/{n}", file=sys.stderr)
        exit_code = exit_code or 2

    wall = time.time() - t0
    completed = n - len(harness_errors) - len(timeouts) - len(aborts)
    if not samples and sample_pool:
        samples.append(engine.sample_of(sample_pool[0]))
    if not samples:
        samples = [{"note": "no completed run kept a trace"}]
    ops = {k[3:]: v for k, v in stats.items() if k.startswith("op:")}
    faults = {k[6:]: v for k, v in stats.items() if k.startswith("fault:")}
    probes = {k[6:]: v for k, v in stats.items() if k.startswith("probe:")}
    for pname in spec.get("probes", []):
        probes.setdefault(pname, 0)
    other = {k: v for k, v in stats.items()
             if not k.startswith(("op:", "fault:", "probe:"))}
    campaign_digest = core.digest([td for _, td in sorted(run_digests, key=lambda x: x[0])])
    coverage = {
        "evaluations": max(1, n),
        "distinct_nontrivial": len(nontrivial_digests),
        "rule": spec["rule"],
        "samples": samples,
        "completed_runs": completed,
        "steps": steps,
        "distinct_traces": len(trace_digests),
        "distinct_states": len(states),
        "distinct_interleavings": len(inter),
        "simulated_time_units": round(sim_time, 1),
        "runs_per_hour": int(n / max(wall, 1e-9) * 3600),
        "seeds_per_hour": int(n / max(wall, 1e-9) * 3600),
        "steps_per_hour": int(steps / max(wall, 1e-9) * 3600),
        "operations": ops,
        "faults_fired": faults,
        "probes": probes,
        "probes_zero": sorted(k for k, v in probes.items() if not v),
        "counters": other,
        "known_findings": kf_report,
        "quarantine_active": quarantine,
        "quarantine_leaks": dict(leak),
        "regressions_replayed": regress_replayed,
        "timeouts": timeouts[:10],
        "n_timeouts": len(timeouts),
        "solver_aborts": aborts[:10],
        "n_solver_aborts": len(aborts),
        "harness_errors": len(harness_errors),
        "wall_capped": bool(counters.get("capped")),
        "components": spec.get("components", {}),
        "determinism_digest": campaign_digest,
        "violation_replays": [p for p, _ in violations_out],
    }
    core.write_evidence(
        prop, tier, verif_seed, spec["level"], coverage, wall, len(violations_out),
        spec.get("assumptions", []), {},
    )
    print(
        f"{prop} {tier}: runs={n} completed={completed} steps={steps} distinct_traces={len(trace_digests)} "
        f"states={len(states)} interleavings={len(inter)} violations={len(violations_out)} "
        f"known={len(known_lines)} timeouts={len(timeouts)} aborts={len(aborts)} "
        f"harness_errors={len(harness_errors)} wall={wall:.1f}s digest={campaign_digest}",
        flush=True,
    )
    return exit_code


def main(argv):
    if len(argv) < 3:
        print("usage: check <ID> <quick|thorough> | check <ID> --replay <file>")
        return 2
    prop = argv[1]
    if argv[2] == "--replay":
        return replay_file(prop, argv[3])
    if argv[2] == "--run":  # debugging aid: one run index of a tier, in this process
        spec = load_props()[prop]
        engine = _engine(spec["engine"])
        tier = argv[4] if len(argv) > 4 else "quick"
        verif_seed = int(os.environ.get("VERIF_SEED", core.DEFAULT_SEEDS[tier]))
        run_cfg = dict(spec.get("run_cfg", {}))
        run_cfg["quarantine"] = [f["trigger"] for f in load_findings(prop) if f["status"] == "open" and f.get("trigger")]
        run_cfg["verbose"] = True
        res = engine.generate_and_run(H(verif_seed, prop, int(argv[3])), prop, tier, run_cfg)
        print(json.dumps({"violation": res.violation, "steps": res.steps, "stats": dict(res.stats)}, indent=1, default=repr)[:6000])
        return 1 if res.violation else 0
    tier = argv[2]
    return run_check(prop, tier)
