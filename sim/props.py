"""Per-property campaign specifications (engine, budgets, rule text, assumptions)."""

REAL = ["cobra (working tree)", "optlang", "GLPK via swiglpk", "sympy", "numpy", "pandas",
        "libsbml", "ruamel.yaml", "json", "pickle"]

PROPS = {
    "C15": {
        "engine": "dlist",
        "level": "exploration",
        "quick_runs": 40000,
        "thorough_runs": 1200000,
        "quick_wall_cap": 240,
        "thorough_wall_cap": 3000,
        "run_cfg": {"max_steps": 30, "run_timeout": 20},
        "rule": (
            "one evaluation = one seeded history of 3-30 DictList operations (28 kinds, per-run "
            "random subset and weights; indices from [-len-2, len+2]; objects from a universe of "
            "4-12 cobra Objects over a 6-letter id alphabet so duplicate ids are frequent) executed "
            "on the real DictList and on a plain Python list; after every operation the full "
            "coherence oracle runs, after every raising operation the list must be unchanged. "
            "distinct = distinct digests of (operation list, per-step contents); non-trivial = at "
            "least one operation changed the list contents."
        ),
        "assumptions": [
            "reference semantics = Python list + unique ids; an operation that raises where a plain "
            "list would succeed is accepted provided the list is unchanged (the property does not "
            "promise success)",
            "elements are cobra.core.Object instances; renames are followed by _generate_index() "
            "as documented",
        ],
        "components": {"real": ["cobra.core.dictlist.DictList", "cobra.core.object.Object", "pickle", "copy"],
                       "stub": []},
        "probes": ["negative_index", "failing_op_checked"],
        "level_text": ("Seeded search over DictList operation histories (incl. failing operations, negative and "
                       "out-of-range indices) against a plain-list reference with the full coherence oracle "
                       "after every step; every violation minimised (ddmin) to a PRNG-free replay file."),
        "design_ref": "3.3, 4 (C15)",
        "level_note": ("Sampled histories (quick ~40k runs / 0.66M steps, thorough 1.2M runs); reference = Python "
                       "list + unique ids; nothing stubbed. A clean run is evidence, not proof."),
        "technique": "deterministic simulation: seeded operation/fault histories vs. executable reference model",
    },
}

ENGINES = {
    "dlist": "seeded DictList operation histories vs. plain-list reference (failing operations are the faults)",
}

NOT_APPLICABLE = {
    "C08": "pure function of the rule text (parse/print/evaluate/compare): no schedule, clock, fault, interleaving or state over time; input generation with a truth-table oracle would be property-based testing, not simulation",
    "C09": "optimality of pFBA/MOMA/ROOM is a mathematical fact about one call on one (model, arguments) input; the only stateful aspect (model restored afterwards) is C13's and is decided there",
    "C17": "pure function of (model, starting fluxes); no schedule, fault or history in the statement",
    "C18": "pure function of (model, medium dictionary / arguments); the medium setter is exercised as an operation of the C02/C03 histories but no claim is made for C18",
    "C19": "pure function of the model; its only execution-dependent aspect (parallel FVA inside find_blocked_reactions) is named in C14 and decided there",
    "C20": "pure function of (model, solution, fva); that building a summary does not modify the model is part of C13",
}
