"""Per-property campaign specifications (engine, budgets, rule text, assumptions)."""

REAL = ["cobra (working tree)", "optlang", "GLPK via swiglpk", "sympy", "numpy", "pandas",
        "libsbml", "ruamel.yaml", "json", "pickle"]

PROPS = {
    "C15": {
        "engine": "dlist",
        "level": "exploration",
        "quick_runs": 250000,
        "thorough_runs": 3000000,
        "quick_wall_cap": 240,
        "thorough_wall_cap": 1800,
        "run_cfg": {"max_steps": 30, "run_timeout": 20},
        "rule": (
            "one evaluation = one seeded history of 3-30 DictList operations (28 kinds, per-run "
            "random subset and weights; indices from [-len-2, len+2]; operands as plain lists, DictLists, "
            "the list itself, slices of it, one-shot iterators, iterables that raise part-way and entries "
            "without identifier; sort with unorderable keys; objects from a universe of "
            "4-12 cobra Objects over a 6-letter id alphabet so duplicate ids are frequent) executed "
            "on the real DictList and on a plain Python list; after every operation the full "
            "coherence oracle runs, after every raising operation the list must be unchanged. "
            "distinct = distinct digests of (operation list, per-step contents); non-trivial = at "
            "least one operation changed the list contents."
        ),
        "assumptions": [
            "reference semantics = Python list + unique ids; an operation that raises where a plain "
            "list would succeed is accepted provided the list is unchanged (the property does not "
            "promise success)",
            "elements are cobra.core.Object instances; renames are followed by _generate_index() "
            "as documented",
        ],
        "components": {"real": ["cobra.core.dictlist.DictList", "cobra.core.object.Object", "pickle", "copy"],
                       "stub": []},
        "probes": ["negative_index", "failing_op_checked"],
        "level_text": ("Seeded search over DictList operation histories (incl. failing operations, negative and "
                       "out-of-range indices) against a plain-list reference with the full coherence oracle "
                       "after every step; every violation minimised (ddmin) to a PRNG-free replay file."),
        "design_ref": "3.3, 4 (C15)",
        "level_note": ("Sampled histories (quick ~40k runs / 0.66M steps, thorough 1.2M runs); reference = Python "
                       "list + unique ids; nothing stubbed. A clean run is evidence, not proof."),
        "technique": "deterministic simulation: seeded operation/fault histories vs. executable reference model",
    },
}

_HIST_RULE = (
    "one evaluation = one seeded history of 4-{n} public operations (46 kinds; per-run random subset and "
    "weights, swarm-chosen model of 2-6 metabolites / 3-10 reactions, solver interface, invalid-argument "
    "probability) applied to live models (up to 3 actors) and, step by step, to an executable reference "
    "model; oracles of this property run after every step (thorough tier: a third of the runs use 5-8 metabolites / 6-12 reactions and "
    "20-60 operations). distinct = distinct digests of (operation list, "
    "per-step content digests); non-trivial = at least one operation changed the observable state."
)
_HIST_COMPONENTS = {"real": REAL + ["optlang temp-file copy of the GLPK problem"],
                    "stub": ["cobra.core.object.Object.__hash__ (seeded)", "uuid.uuid1 in optlang.interface (counter)",
                             "numpy global RNG (owned, seeded)", "Configuration() singleton (reset per run)"]}
_HIST_ASSUME = [
    "generated numbers are short decimals/small integers/+-1000/+-inf so float arithmetic in the reference is "
    "bit-identical and GLPK's 15-digit text format used by copy/pickle is lossless",
    "after an operation that raised, the reference content is resynchronised from the observed model (no property "
    "promises atomic failures for models); invariants keep full strength",
    "no solver call is issued while a reaction without metabolites exists (GLPK aborts the process, H-01)",
    "a reaction referenced by a live user constraint is never removed (optlang, not cobrapy, fails there, H-02)",
]


def _hist(pid, quick, thorough, text, note, ref, probes=(), max_steps=30):
    return {
        "engine": "hist", "level": "exploration", "quick_runs": quick, "thorough_runs": thorough,
        "quick_wall_cap": 600, "thorough_wall_cap": 1800,
        "run_cfg": {"max_steps": max_steps, "run_timeout": 60},
        "thorough_cfg": {"deep": True},  # a third of the thorough runs: 5-8 metabolites / 6-12 reactions, histories of 20-60 operations
        "rule": _HIST_RULE.format(n=max_steps), "assumptions": _HIST_ASSUME, "components": _HIST_COMPONENTS,
        "probes": list(probes), "level_text": text, "design_ref": ref, "level_note": note,
        "technique": "deterministic simulation: seeded operation/fault histories vs. executable reference model",
    }


PROPS["C01"] = _hist(
    "C01", 20000, 240000,
    "Seeded search over histories of public operations (incl. failing ones, contexts, copies, pickles, solver switches); "
    "after every step the raw GLPK problem is read back with swiglpk and must equal the flux-balance problem of the "
    "Python-side model plus the reference list of explicitly user-added rows/columns.",
    "Sampled histories on small generated networks; both GLPK interfaces; oracle independent of optlang's Python caches.",
    "4 (C01)", probes=["context_enter", "nested_context", "new_actor", "copy_inside_context"])
PROPS["C02"] = _hist(
    "C02", 20000, 240000,
    "Every operation is also applied to an executable reference model written from the docstrings; content must be equal "
    "after every operation judged P, identity-level cross-reference invariants after every operation incl. failing ones.",
    "Sampled histories; operations whose documentation does not determine the result are judged by invariants only "
    "(counts of P/I judgements are in the evidence).", "4 (C02)")
PROPS["C03"] = _hist(
    "C03", 20000, 240000,
    "Histories with nested `with model:` blocks (depth <= 4), failing operations and exception exits inside blocks; the full "
    "snapshot (content, cross-references, objective, raw LP) taken at __enter__ must equal the one after the matching __exit__, "
    "and __exit__ must not raise.",
    "Sampled histories; only operations the documentation calls reversible are executed inside blocks.", "4 (C03)",
    probes=["context_enter", "nested_context", "context_exit_checked", "exit_replays_10+_undo_entries"])
PROPS["C04"] = _hist(
    "C04", 16000, 200000,
    "optimize()/slim_optimize() are observation operations inside edit histories (warm-started solver, both interfaces, copies, "
    "contexts): status, optimum, fluxes, duals and the status->return/exception mapping are judged against an exact rational LP "
    "(checked certificates) built from the reference model; every Solution ever returned is re-compared with its frozen copy after "
    "every later step; after a solve without optimum the per-object accessors may only raise the documented exception classes.",
    "In-family part only (history dependence, snapshot immutability, verdict handling); the input dimension is sampled by small "
    "generated networks and the states edit histories reach. Trusted base: sim/reflp.py + fractions.", "4 (C04)",
    probes=["fba_truth_optimal", "fba_truth_infeasible", "fba_truth_unbounded", "fba_optimum_checked", "duals_checked",
            "slim_optimum_checked", "slim_error_value_checked", "solution_kept"])
PROPS["C07"] = _hist(
    "C07", 20000, 200000,
    "Knock-out heavy histories (Gene.knock_out, knock_out_model_genes by object/id/index, Reaction.knock_out, functional flags, "
    "rule edits, contexts) judged against truth tables over the generator's own rule trees (never cobrapy's parser); 15 % of the quick "
    "and 50 % of the thorough runs drive *every* subset of the model's genes (<= 64), each in its own context and in a seeded order; "
    "after every block that is left, gene states and reaction bounds must be what they were on entry.",
    "Sampled histories; rules are random and/or trees of depth <= 3 over <= 6 shared genes.", "4 (C07)")
PROPS["C10"] = _hist(
    "C10", 9000, 110000,
    "'Restart through SBML' is an operation inside edit histories: write (string, path, handle; with and without f_replace) under one "
    "global Configuration, validate the document with the SBML validator, discard the live model, read under another Configuration, "
    "compare with the projection of the reference (ids, stoichiometry, bounds, objective and direction, rule truth tables, compartments, "
    "names, formulas, charges, annotations as (provider, identifier) sets, plain-text notes, groups), raw LP and cross-references, "
    "require a second round trip to be a fixpoint, and continue the history on the loaded model.",
    "In-family part only (durability across restart for history-reached states); shipped/third-party SBML files, FBC-v1 and "
    "compressed files are pure-input clauses and not claimed. Every species must have a compartment (SBML requirement).", "4 (C10)",
    probes=["restart_sbml", "restart_variant_string", "restart_variant_path", "restart_variant_handle", "restart_config_skew",
            "restart_fixpoint_checked"])
PROPS["C11"] = _hist(
    "C11", 10000, 120000,
    "'Restart through a durable format' is an operation inside edit histories: save as JSON/YAML/dict/pickle (string, path or "
    "handle; sort on/off) under one global Configuration, discard the live model, load under another Configuration, compare with "
    "the projection of the reference, require a second round trip to be a fixpoint, and continue the history on the loaded model.",
    "Sampled histories and configuration skews; groups, user LP objects and gene functional flags are not promised by the dict "
    "formats and are resynchronised; a metabolite without compartment is compared as compartment ''.", "4 (C11)",
    probes=["restart_pickle", "restart_dict", "restart_json", "restart_yaml", "restart_variant_string", "restart_variant_path",
            "restart_variant_handle", "restart_config_skew", "restart_fixpoint_checked"])
PROPS["C12"] = _hist(
    "C12", 14000, 170000,
    "Several live models (original, copy, deepcopy, unpickled) with interleaved histories: equality incl. raw LP at creation, "
    "distinct objects, and after every step the full snapshot of every model not operated on must be bit-identical to before.",
    "Sampled two/three-actor schedules; in-place edits of notes/annotation dictionaries are part of the operation set.", "4 (C12)",
    probes=["new_actor", "copy_inside_context", "detached_object"])

_POOL_COMPONENTS = {"real": REAL + ["cobra.util.ProcessPool wrapper (incl. its Windows branch)", "worker initialisers and task functions"],
                    "stub": ["multiprocessing.Pool -> SimPool (per-worker address spaces by pickle round trip + module-global swapping, "
                             "seeded chunk->worker assignment, virtual durations, completion order)",
                             "solver verdict (wrapper around optlang Model.optimize that may override the status of a real solve)",
                             "platform.system in process_pool", "Object.__hash__ (seeded)", "uuid.uuid1 in optlang (counter)",
                             "numpy global RNG (owned; per simulated worker)", "time() in the samplers"]}
_POOL_ASSUME = [
    "worker processes share nothing, so executing each chunk at its dispatch event is faithful; arguments, results and the initializer's "
    "arguments cross the process boundary by pickle round trip (spawn semantics; fork-inherited warm-start bases are not modelled)",
    "worker death is not injected (CPython's Pool hangs on it and no property mentions it)",
    "exact oracle: sim/reflp.py (rational simplex with independently checked certificates); a case it cannot certify is skipped and counted",
    "loopless FVA is judged by inclusion invariants only (true loopless extremes need sign-pattern enumeration)",
]


def _pool(pid, level, quick, thorough, text, note, ref, probes=(), cfg=None, technique=None):
    return {
        "engine": "pool", "level": level, "quick_runs": quick, "thorough_runs": thorough,
        "quick_wall_cap": 900, "thorough_wall_cap": 1800,
        "run_cfg": dict({"run_timeout": 120, "max_fault_points": 40}, **(cfg or {})),
        "rule": ("one evaluation = one simulated run: a generated network (2-7 metabolites, 4-12 reactions, gene rules), optionally aged by "
                 "earlier optimisations and wrapped in a user context, then 1-3 analysis calls, each first with processes=1 and then as "
                 "variants under the simulated process pool (processes 2-16, seeded chunk->worker assignment, virtual durations incl. "
                 "stalled workers, completion order, permuted item lists, single-item calls) and - for fault enumeration - once per "
                 "(solver call index x verdict). distinct = distinct digests of (calls, per-call solver-call counts, schedule decisions); "
                 "non-trivial = at least one analysis returned a result (C14: and at least one call went through the pool)."),
        "assumptions": _POOL_ASSUME, "components": _POOL_COMPONENTS, "probes": list(probes),
        "level_text": text, "design_ref": ref, "level_note": note,
        "technique": technique or "deterministic simulation: simulated process pool under a seeded scheduler + exact LP oracle",
    }


_POOL_PROBES = ["pool_created", "worker_ran_2+_chunks", "completion_order_differs_from_submission", "stalled_worker",
                "chunk_tail_shorter", "call_used_pool", "aged_parent", "windows_init_file_branch"]
PROPS["C05"] = _pool(
    "C05", "exploration", 3000, 36000,
    "FVA (plain, fraction_of_optimum, pfba_factor; reaction lists as objects/ids/subsets/permutations) on generated networks under "
    "processes=1 and under every simulated pool schedule, judged against exact rational min/max of each net flux; loopless ranges by "
    "inclusion invariants.",
    "Input dimension sampled by small generated networks; what the technique adds is the schedule/process-count dimension.", "4 (C05)",
    probes=_POOL_PROBES + ["fva_exact_checked", "blocked_exact_checked"])
PROPS["C06"] = _pool(
    "C06", "exploration", 4000, 48000,
    "Single/double gene/reaction deletions and essential-gene/reaction searches under processes=1 and simulated pool schedules; rows must be "
    "exactly the requested unordered combinations; growth/status judged against truth-table knock-out of the reference + exact LP.",
    "FBA method judged exactly; linear MOMA/ROOM only by bookkeeping (row set, statuses) in the C13/C14 workloads.", "4 (C06)",
    probes=_POOL_PROBES + ["deletion_exact_checked", "essential_exact_checked"])
PROPS["C13"] = _pool(
    "C13", "fault_enumeration", 300, 3600,
    "For each sampled (model, analysis, arguments, serial|simulated-parallel, inside|outside a user context): one fault-free execution to "
    "learn the number K of solver calls, then one execution per (call index k <= K) x (verdict in infeasible, unbounded, undefined, "
    "time_limit, feasible) with exactly that solve's verdict overridden; the full model snapshot (content, list orders, objective, raw "
    "GLPK problem, gene flags, context depth) must be identical before and after every call, however it ended, and fault-free calls "
    "must repeat their uniquely defined results.",
    "Complete over (call index x verdict kind) for each sampled case (capped at 40 call indices, sampled beyond, counted); sampled over "
    "cases. 21 analyses.", "4 (C13)",
    probes=_POOL_PROBES + ["unchanged_checked", "user_context_open", "user_context_still_intact", "compared_with_reference"],
    technique="deterministic simulation with fault enumeration: every solver call index x every verdict injected, snapshot oracle")
PROPS["C14"] = _pool(
    "C14", "exploration", 3500, 42000,
    "For each generated model: reference call with processes=1, then variants under the simulated pool (processes 2-16, chunk->worker "
    "assignment, durations incl. stalled workers, completion order, permuted item lists, Configuration().processes, platform branch, aged "
    "parent) and single-item calls; per item the values must agree with the reference, with the single-item call and with the exact oracle; "
    "OptGP sampling must return the same frame for the same (seed, processes) under different schedules.",
    "Sampled schedules; distinct interleavings (per-worker chunk sequences + completion order) are counted in the evidence.", "4 (C14)",
    probes=_POOL_PROBES + ["compared_with_reference", "single_item_checked", "fva_exact_checked", "deletion_exact_checked"])

PROPS["C16"] = {
    "engine": "samp", "level": "exploration", "quick_runs": 12000, "thorough_runs": 150000,
    "quick_wall_cap": 900, "thorough_wall_cap": 1800, "run_cfg": {"run_timeout": 120},
    "rule": ("one evaluation = one simulated sampler run: a generated feasible-ish network with finite bounds (homogeneous, forced, fixed or "
             "mixed fluxes, optional extra linear constraint), 1-3 sampler calls (ACHR / OptGP via objects or sample(); n, thinning, nproj, "
             "seed incl. None -> simulated clock, processes 1-4 through SimPool, reaction or solver-variable space), each seeded call repeated "
             "after perturbing the global RNG and under a different pool schedule. distinct = distinct digests of (calls, schedule decisions); "
             "non-trivial = at least one call returned samples."),
    "assumptions": ["feasibility is judged with absolute tolerance 1e-6 (10x the sampler's documented tolerance model.tolerance) on the reference "
                    "stoichiometry, bounds and extra constraints", "documented refusals (ValueError for a single-point or infeasible region) count "
                    "as refusals, not violations", "intermediate points of the walk are not judged: the property speaks of returned samples"],
    "components": _POOL_COMPONENTS, "probes": ["samples_checked", "seed_replay_checked", "validate_perturbation_checked", "pool_created"],
    "level_text": ("Samplers run as seeded stochastic processes under a simulator that owns numpy's RNG, the default-seed clock and the process "
                   "pool; every returned row is checked for feasibility independently of the sampler's own code, together with shape, columns, "
                   "seed replay, validate() agreement and an unchanged model."),
    "design_ref": "3.4, 4 (C16)",
    "level_note": "Sampled models/knobs/seeds; OptGP fan-out through SimPool (spawn-style pickling of the sampler).",
    "technique": "deterministic simulation: owned RNG/clock/pool, seeded sampler runs with replay + independent feasibility oracle",
}

ENGINES = {
    "hist": "seeded histories of public model operations on up to 3 live models vs. RefModel, raw-GLPK read-back, context/copy/restart operations",
    "pool": "analyses under SimPool (simulated multiprocessing.Pool, seeded scheduler) and the solver-verdict injector; exact rational LP oracle",
    "samp": "ACHR/OptGP samplers under owned RNG, clock and SimPool; independent feasibility oracle and seed replay",
    "dlist": "seeded DictList operation histories vs. plain-list reference (failing operations are the faults)",
}

NOT_APPLICABLE = {
    "C08": "pure function of the rule text (parse/print/evaluate/compare): no schedule, clock, fault, interleaving or state over time; input generation with a truth-table oracle would be property-based testing, not simulation",
    "C09": "optimality of pFBA/MOMA/ROOM is a mathematical fact about one call on one (model, arguments) input; the only stateful aspect (model restored afterwards) is C13's and is decided there",
    "C17": "pure function of (model, starting fluxes); no schedule, fault or history in the statement",
    "C18": "pure function of (model, medium dictionary / arguments); the medium setter is exercised as an operation of the C02/C03 histories but no claim is made for C18",
    "C19": "pure function of the model; its only execution-dependent aspect (parallel FVA inside find_blocked_reactions) is named in C14 and decided there",
    "C20": "pure function of (model, solution, fva); that building a summary does not modify the model is part of C13",
}
