"""Tests for reflp: hand-made cases, negative tests of verify(), random cross-check against GLPK
(through optlang), timings.  Run:  /venv/bin/python /verif/sim/test_reflp.py [n_random] [seed]"""
import os
import random
import sys
import time
from fractions import Fraction as F

sys.path.insert(0, os.path.dirname(os.path.abspath(__file__)))
import reflp
from reflp import LP, solve, verify, minmax, evaluate, is_feasible_point

FAILS = []
CHECKS = [0]


def check(cond, msg):
    CHECKS[0] += 1
    if not cond:
        FAILS.append(msg)
        print("FAIL:", msg)


def mk(cols, rows=()):
    lp = LP(len(cols))
    for j, (lo, hi) in enumerate(cols):
        lp.set_col(j, lo, hi)
    for coeffs, lo, hi in rows:
        lp.add_row(coeffs, lo, hi)
    return lp


def expect(name, lp, c, sense, status, value=None, x=None):
    r = solve(lp, c, sense)
    check(r.status == status and r.certified, "%s: got %r (claimed %s), want %s" % (name, r, r.claimed, status))
    if value is not None:
        check(r.value == F(value), "%s: value %s != %s" % (name, r.value, value))
    if x is not None and r.x is not None:
        check(r.x == [F(v) for v in x], "%s: x %s != %s" % (name, r.x, x))
    if r.status != 'unknown':
        check(verify(lp, c, sense, r), name + ": verify() on returned result")
    return r


def hand_made():
    # --- optimal ---------------------------------------------------------------------------
    lp = mk([(0, None), (0, None)], [({0: 1, 1: 2}, None, 4), ({0: 3, 1: 1}, None, 6)])
    r = expect("2d max", lp, [1, 1], 'max', 'optimal', F(14, 5), [F(8, 5), F(6, 5)])
    check(r.y == [F(2, 5), F(1, 5)], "2d max duals %s" % r.y)
    expect("2d min", lp, [1, 1], 'min', 'optimal', 0, [0, 0])
    expect("2d min neg", lp, {0: -1, 1: -1}, 'min', 'optimal', F(-14, 5))
    r = expect("2d min duals", mk([(0, None), (0, None)], [({0: 1, 1: 1}, 2, None)]), [3, 5], 'min', 'optimal', 6)
    check(r.y == [F(3)], "min dual sign %s" % r.y)
    # ranged row, both senses
    lp = mk([(-5, 5), (-5, 5)], [({0: 1, 1: -1}, -1, 2)])
    expect("ranged max", lp, {0: 1}, 'max', 'optimal', 5)
    expect("ranged diff max", lp, {0: 1, 1: -1}, 'max', 'optimal', 2)
    expect("ranged diff min", lp, {0: 1, 1: -1}, 'min', 'optimal', -1)
    # free variables
    lp = mk([(None, None), (-3, 2)], [({0: 1, 1: 1}, 0, 0)])
    expect("free max", lp, {0: 1}, 'max', 'optimal', 3)
    expect("free min", lp, {0: 1}, 'min', 'optimal', -2)
    # fixed variables
    lp = mk([(2, 2), (0, 10), (-1, -1)], [({0: 1, 1: 1, 2: 1}, None, 5)])
    expect("fixed max", lp, [1, 1, 1], 'max', 'optimal', 5)
    expect("fixed min", lp, [1, 1, 1], 'min', 'optimal', 1)
    # empty rows
    lp = mk([(0, 1)], [({}, -1, 1), ({}, None, 0), ({}, 0, 0), ({}, None, None)])
    expect("empty rows ok", lp, [1], 'max', 'optimal', 1)
    expect("empty row lo>0", mk([(0, 1)], [({}, 1, None)]), [1], 'max', 'infeasible')
    expect("empty row hi<0", mk([(0, 1)], [({}, None, -1)]), [1], 'min', 'infeasible')
    expect("zero-coeff row", mk([(0, 1)], [({0: 0}, 1, 2)]), [1], 'max', 'infeasible')
    # zero columns (appear in no row)
    lp = mk([(0, 1), (-2, 7), (None, None)], [({0: 1}, 0, 1)])
    expect("zero col bounded", lp, [1, 1, 0], 'max', 'optimal', 8)
    expect("zero col unbounded", lp, [1, 1, 1], 'max', 'unbounded')
    expect("zero col unbounded min", lp, [1, 1, 1], 'min', 'unbounded')
    # zero objective
    lp = mk([(0, 10), (0, 10)], [({0: 1, 1: 1}, 3, 3)])
    expect("zero objective list", lp, [0, 0], 'max', 'optimal', 0)
    expect("zero objective dict", lp, {}, 'min', 'optimal', 0)
    # duplicate rows / redundant equalities
    lp = mk([(0, 10)] * 3, [({0: 1, 1: -1}, 0, 0), ({0: 1, 1: -1}, 0, 0), ({1: 1, 2: -1}, 0, 0),
                            ({0: 1, 2: -1}, 0, 0), ({0: 2, 1: -2}, 0, 0), ({0: 1, 1: 1, 2: 1}, None, 12)])
    expect("redundant eq", lp, [1, 1, 1], 'max', 'optimal', 12, [4, 4, 4])
    lp2 = lp.with_row({0: 1, 2: -1}, 1, 1)
    expect("contradicting dup", lp2, [1, 1, 1], 'max', 'infeasible')
    check(lp.nrows == 6 and lp2.nrows == 7, "with_row must copy")
    # no columns / no rows
    expect("0 cols", LP(0), [], 'max', 'optimal', 0)
    expect("0 cols bad row", mk([], [({}, 1, 1)]), {}, 'max', 'infeasible')
    expect("no rows box", mk([(-1, 2), (3, 4)]), [1, -1], 'max', 'optimal', -1)
    # toy flux-balance model: uptake -> A -> B -> biomass, with a futile loop
    S = [({0: 1, 1: -1, 3: -1, 4: 1}, 0, 0), ({1: 1, 2: -1, 3: 1, 4: -1}, 0, 0)]
    lp = mk([(0, 10), (0, 1000), (0, 1000), (0, 1000), (0, 1000)], S)
    expect("fba max", lp, {2: 1}, 'max', 'optimal', 10)
    lo_, hi_ = minmax(lp, 1)
    check(lo_.certified and hi_.certified and (lo_.value, hi_.value) == (0, 1000), "fva loop flux")
    lo_, hi_ = minmax(lp, {1: 1, 3: 1, 4: -1})
    check((lo_.value, hi_.value) == (0, 10), "fva net flux")
    # degenerate: Beale's cycling example (cycles under the textbook Dantzig rule)
    lp = mk([(0, None)] * 4, [({0: F(1, 4), 1: -60, 2: F(-1, 25), 3: 9}, None, 0),
                              ({0: F(1, 2), 1: -90, 2: F(-1, 50), 3: 3}, None, 0), ({2: 1}, None, 1)])
    expect("beale", lp, [F(3, 4), -150, F(1, 50), -6], 'max', 'optimal', F(1, 20))
    # highly degenerate vertex
    lp = mk([(0, None)] * 3, [({0: 1, 1: 1, 2: 1}, None, 0), ({0: 1, 1: -1}, None, 0), ({0: 1, 2: -1}, 0, None),
                              ({1: 1, 2: 2}, None, 0)])
    expect("degenerate origin", lp, [1, 2, 3], 'max', 'optimal', 0, [0, 0, 0])
    # Klee-Minty cube, n=5
    n = 5
    rows = [({**{j: 2 ** (i - j + 1) for j in range(i)}, i: 1}, None, 5 ** (i + 1)) for i in range(n)]
    expect("klee-minty", mk([(0, None)] * n, rows), [2 ** (n - 1 - j) for j in range(n)], 'max', 'optimal', 5 ** n)
    # float input is exact; inf floats are infinite
    lp = mk([(0.1, 0.3), (float('-inf'), float('inf'))], [({0: 1, 1: 0.5}, float('-inf'), 1)])
    expect("float exact", lp, [1, 0], 'max', 'optimal', F(0.3))
    check(lp.lo[1] is None and lp.hi[1] is None and lp.row_lo[0] is None, "inf floats")
    expect("float exact 2", lp, [0, 1], 'max', 'optimal', 2 * (1 - F(0.1)))
    # --- infeasible ------------------------------------------------------------------------
    expect("infeasible box/row", mk([(0, 1), (0, 1)], [({0: 1, 1: 1}, 5, None)]), [1, 1], 'max', 'infeasible')
    expect("infeasible rows", mk([(None, None)] * 2, [({0: 1, 1: 1}, None, 1), ({0: 1, 1: 1}, 2, None)]), [0, 0],
           'min', 'infeasible')
    expect("infeasible eqs", mk([(0, None)] * 2, [({0: 1, 1: -1}, 0, 0), ({0: 1}, 3, 3), ({1: 1}, None, 2)]), [1, 0],
           'max', 'infeasible')
    r = expect("trivial col", mk([(1, 0), (0, 1)]), [1, 1], 'max', 'infeasible')
    check(r.trivial == ('col', 0), "trivial col flag")
    r = expect("trivial row", mk([(0, 1)], [({0: 1}, 0, 1), ({0: 1}, 2, 1)]), [1], 'max', 'infeasible')
    check(r.trivial == ('row', 1), "trivial row flag")
    # infeasible AND objective direction unbounded -> infeasible wins
    expect("inf-or-unb", mk([(0, None), (0, None)], [({0: 1}, None, -1)]), [0, 1], 'max', 'infeasible')
    # --- unbounded -------------------------------------------------------------------------
    expect("unbounded no rows", mk([(0, None)]), [1], 'max', 'unbounded')
    expect("unbounded min free", mk([(None, None)]), [1], 'min', 'unbounded')
    expect("unbounded eq", mk([(0, None), (None, None)], [({0: 1, 1: -1}, 0, 0)]), [0, 1], 'max', 'unbounded')
    expect("bounded by eq", mk([(0, None), (None, 7)], [({0: 1, 1: -1}, 0, 0)]), [1, 0], 'max', 'optimal', 7)
    expect("unbounded after phase1", mk([(0, None), (0, None)], [({0: 1, 1: -1}, 3, None), ({0: 1}, 1, None)]), [1, 1],
           'max', 'unbounded')
    expect("unbounded upper-only col", mk([(None, 4), (0, 1)], [({0: 1, 1: 1}, None, 3)]), [1, 0], 'min', 'unbounded')
    # --- helpers ---------------------------------------------------------------------------
    check(evaluate({0: 2, 2: 0.5}, [1, 5, F(1, 3)]) == F(13, 6), "evaluate dict")
    check(evaluate([1, 2], [0.5, 0.25]) == 1, "evaluate list")
    lp = mk([(0, 1), (0, 1)], [({0: 1, 1: 1}, 1, 1)])
    check(is_feasible_point(lp, [0.5, 0.5]) == (True, 0), "feasible point")
    ok, w = is_feasible_point(lp, [0.5, 0.5 + 1e-9])
    check(not ok and w == F(0.5 + 1e-9) - F(1, 2), "tol=0 violation")
    check(is_feasible_point(lp, [0.5, 0.5 + 1e-9], tol=1e-8)[0], "within tol")
    check(not is_feasible_point(lp, [-1e-6, 1], tol=1e-7)[0], "outside tol (col)")
    lpc = lp.copy()
    lpc.set_col(0, 5, 6)
    lpc.add_row({0: 1}, 0, 0)
    check(lp.lo[0] == 0 and lp.nrows == 1, "copy is deep")
    r = solve(mk([(0, None)] * 5, rows), [1] * 5, 'max', max_iter=2)
    check(r.status == 'unknown' and not r.certified, "max_iter -> unknown")


def negative_verify():
    """verify() must reject every perturbed certificate."""
    lp = mk([(0, None), (0, None)], [({0: 1, 1: 2}, None, 4), ({0: 3, 1: 1}, None, 6)])
    c = [1, 1]
    good = solve(lp, c, 'max')

    def variant(**kw):
        r = reflp.Result(kw.pop('status', good.status), good.value, good.x and list(good.x), good.y and list(good.y), None)
        for k, v in kw.items():
            setattr(r, k, v)
        return r

    check(verify(lp, c, 'max', variant()), "neg: baseline accepted")
    check(not verify(lp, c, 'max', variant(x=[F(8, 5), F(6, 5) + F(1, 10 ** 9)])), "neg: infeasible x")
    check(not verify(lp, c, 'max', variant(x=[F(1), F(1)], value=F(2))), "neg: suboptimal x")
    check(not verify(lp, c, 'max', variant(value=F(3))), "neg: wrong value")
    check(not verify(lp, c, 'max', variant(y=[F(2, 5), F(1, 5) + F(1, 1000)])), "neg: wrong y")
    check(not verify(lp, c, 'max', variant(y=[F(-2, 5), F(-1, 5)])), "neg: wrong-sign y")
    check(not verify(lp, c, 'max', variant(y=[F(2, 5)])), "neg: short y")
    check(not verify(lp, c, 'max', variant(x=[1.6, 1.2])), "neg: float x")
    check(not verify(lp, c, 'min', variant()), "neg: wrong sense")
    check(not verify(lp, c, 'max', variant(status='infeasible')), "neg: claim infeasible")
    check(not verify(lp, c, 'max', variant(status='infeasible', y=[F(1), F(1)])), "neg: bogus Farkas")
    check(not verify(lp, c, 'max', variant(status='unbounded', ray=[F(1), F(0)])), "neg: bogus ray")
    check(not verify(lp, c, 'max', variant(status='unknown')), "neg: unknown")
    # unbounded: ray must be in the recession cone and improving
    lp = mk([(0, None), (None, 3)], [({0: 1, 1: -1}, 0, None)])
    good = solve(lp, [1, 0], 'max')
    check(good.status == 'unbounded' and good.certified, "neg: unbounded baseline")
    check(verify(lp, [1, 0], 'max', variant(status='unbounded', ray=[F(1), F(0)])), "neg: good ray")
    check(not verify(lp, [1, 0], 'max', variant(status='unbounded', ray=[F(1), F(2)])), "neg: ray breaks col hi")
    check(not verify(lp, [1, 0], 'max', variant(status='unbounded', ray=[F(1), F(-1)], x=[F(-1), F(0)])),
          "neg: infeasible base point")
    check(not verify(lp, [1, 0], 'max', variant(status='unbounded', ray=[F(0), F(-1)])), "neg: ray not improving")
    check(not verify(lp, [1, 0], 'max', variant(status='unbounded', ray=[F(-1), F(-2)])), "neg: ray breaks col lo")
    check(verify(lp, [0, 1], 'min', variant(status='unbounded', ray=[F(0), F(-1)])), "neg: other good ray")
    lp = mk([(0, None), (0, None)], [({0: 1, 1: -1}, 0, None)])
    z = [F(0), F(0)]
    check(verify(lp, [0, 1], 'max', variant(status='unbounded', x=z, ray=[F(1), F(1)])), "neg: good ray 3")
    check(not verify(lp, [0, 1], 'max', variant(status='unbounded', x=z, ray=[F(0), F(1)])), "neg: ray breaks row lo")
    check(not verify(lp, [0, 1], 'max', variant(status='unbounded', x=z, ray=[F(1)])), "neg: short ray")
    # infeasible: Farkas multipliers must really prove it
    lp = mk([(0, 1), (0, 1)], [({0: 1, 1: 1}, 5, None), ({0: 1}, None, 7)])
    good = solve(lp, [1, 1], 'max')
    check(good.status == 'infeasible' and good.certified, "neg: infeasible baseline")
    R = reflp.Result
    check(verify(lp, [1, 1], 'max', R('infeasible', y=[F(-1), F(0)])), "neg: good Farkas")
    check(not verify(lp, [1, 1], 'max', R('infeasible', y=[F(1), F(0)])), "neg: Farkas wrong sign (inf bound)")
    check(not verify(lp, [1, 1], 'max', R('infeasible', y=[F(0), F(1)])), "neg: Farkas on wrong row")
    check(not verify(lp, [1, 1], 'max', R('infeasible', y=[F(0), F(0)])), "neg: zero Farkas")
    check(not verify(lp, [1, 1], 'max', R('optimal', value=F(2), x=[F(1), F(1)], y=[F(0), F(0)])),
          "neg: claim optimal on infeasible")


# ------------------------------------------------------------------------------------------------
# random cross-check against GLPK
# ------------------------------------------------------------------------------------------------
COEFS = [-3, -2, -1, 1, 2, 3, 0.5]
BNDS = [0, 1, -1, 5, -5, 10, -10, 1000, -1000, None]


FLUX0 = [(0, 1000), (-1000, 1000), (0, 10), (-10, 10), (0, None), (None, None), (0, 0), (-5, 5), (0, 1), (-1000, 0),
         (None, 0)]
FLUX = FLUX0 + [(1, 1000), (1, 5)]


def rand_bounds(rng, style, around=None):
    """style: 'flux0' reaction-like bounds containing 0 | 'flux' also forced fluxes | 'any' | 'planted' (any
    bounds containing the value `around`)."""
    if style in ('flux', 'flux0'):
        return rng.choice(FLUX if style == 'flux' else FLUX0)
    lo, hi = rng.choice(BNDS), rng.choice(BNDS)
    if style == 'planted':
        lo = rng.choice([b for b in BNDS if b is None or b <= around] + [around])
        hi = rng.choice([b for b in BNDS if b is None or b >= around] + [around])
    if lo is not None and hi is not None and lo > hi:
        lo, hi = hi, lo
    return lo, hi


def rand_lp(rng, n=None, m=None, density=None, style=None, p_eq0=None):
    """Random LP.  Rows are '= 0' with probability p_eq0 (flux balance S v = 0), else ranged / one-sided / '= b'.
    With style 'planted' a random point v0 is made feasible: column and row bounds are drawn around v0, A.v0."""
    n = n or rng.randint(2, 12)
    m = rng.randint(0, 8) if m is None else m
    style = style or rng.choice(['flux0', 'flux', 'any', 'planted'])
    p_eq0 = rng.choice([1.0, 1.0, 0.8, 0.5]) if p_eq0 is None else p_eq0
    density = density or rng.choice([0.2, 0.35, 0.6])
    v0 = [rng.choice([-1, 0, 0, 1, 2, 5]) for _ in range(n)]
    cols = [rand_bounds(rng, style, v0[j]) for j in range(n)]
    rows = []
    for _ in range(m):
        coeffs = {j: rng.choice(COEFS) for j in range(n) if rng.random() < density}
        if not coeffs:
            coeffs = {rng.randrange(n): rng.choice(COEFS)}
        if style == 'planted':
            act = sum(a * v0[j] for j, a in coeffs.items())
            lo, hi = (act, act) if rng.random() < p_eq0 else rand_bounds(rng, 'planted', act)
        elif rng.random() < p_eq0:
            lo = hi = 0
        else:
            lo, hi = rand_bounds(rng, 'any')
            if rng.random() < 0.3:
                lo = hi = rng.choice([b for b in BNDS if b is not None])
        rows.append((coeffs, lo, hi))
    k = rng.choice([1, 1, 2, n])
    c = {j: rng.choice(COEFS) for j in rng.sample(range(n), min(k, n))}
    if rng.random() < 0.03:
        c = {}
    return cols, rows, c, rng.choice(['max', 'min'])


def glpk_solve(cols, rows, c, sense):
    from optlang import glpk_interface as g
    m = g.Model()
    m.configuration.presolve = False
    v = [g.Variable("x%d" % j, lb=lo, ub=hi) for j, (lo, hi) in enumerate(cols)]
    m.add(v)
    cons = [g.Constraint(sum(a * v[j] for j, a in coeffs.items()), lb=lo, ub=hi) for coeffs, lo, hi in rows]
    if cons:
        m.add(cons)
    m.objective = g.Objective(sum((a * v[j] for j, a in c.items()), 0 * v[0]), direction=sense)
    status = m.optimize()
    if status == 'optimal':
        return status, m.objective.value, [t.primal for t in v]
    return status, None, None


def cross_check(count, seed):
    rng = random.Random(seed)
    tally, gtally, unknown, disagree, t_ref, t_glpk, iters = {}, {}, 0, 0, 0.0, 0.0, 0
    for k in range(count):
        cols, rows, c, sense = rand_lp(rng)
        lp = mk(cols, rows)
        t0 = time.perf_counter()
        r = solve(lp, c, sense)
        t1 = time.perf_counter()
        gs, gv, gx = glpk_solve(cols, rows, c, sense)
        t_glpk += time.perf_counter() - t1
        t_ref += t1 - t0
        iters += r.iterations
        tally[r.status] = tally.get(r.status, 0) + 1
        gtally[gs] = gtally.get(gs, 0) + 1
        if not r.certified or r.status == 'unknown':
            unknown += 1
            check(False, "random #%d: uncertified (claimed %s)" % (k, r.claimed))
            continue
        ok = gs == r.status or (gs == 'undefined' and r.status in ('infeasible', 'unbounded'))
        if ok and r.status == 'optimal':
            ok = abs(gv - float(r.value)) <= 1e-6 * max(1, abs(gv))
            fx, worst = is_feasible_point(lp, gx, tol=1e-6)
            check(fx, "random #%d: GLPK primal infeasible by %.3g" % (k, float(worst)))
        if not ok:
            disagree += 1
        check(ok, "random #%d: reflp %r vs GLPK %s %s  (lp=%r)" % (k, r, gs, gv, (cols, rows, c, sense)))
    print("random cross-check: %d LPs, verdicts %s, unknown=%d, disagreements=%d" % (count, tally, unknown, disagree))
    print("  GLPK statuses: %s" % gtally)
    print("  mean reflp %.3f ms/LP (%.1f iterations), GLPK via optlang %.3f ms/LP"
          % (1e3 * t_ref / count, iters / count, 1e3 * t_glpk / count))


def stress(count, seed):
    """No GLPK: larger shapes (up to 25x20), awkward float data; everything must come back certified, and
    optimal values must survive two metamorphic checks (cut off the optimum / pin the objective to it)."""
    rng = random.Random(seed)
    tally, maxit = {}, 0
    for k in range(count):
        cols, rows, c, sense = rand_lp(rng, rng.randint(1, 25), rng.randint(0, 20))
        if rng.random() < 0.3:
            rows = [({j: a * rng.choice([1, 0.1, 1e-3, 7.3]) for j, a in co.items()}, lo, hi) for co, lo, hi in rows]
            cols = [(None if lo is None else lo * rng.choice([1, 0.1, 1.7]), hi) for lo, hi in cols]
            cols = [(lo, hi) if lo is None or hi is None or lo <= hi else (hi, lo) for lo, hi in cols]
        lp = mk(cols, rows)
        r = solve(lp, c, sense)
        tally[r.status] = tally.get(r.status, 0) + 1
        maxit = max(maxit, r.iterations)
        check(r.certified, "stress #%d: uncertified (claimed %s)" % (k, r.claimed))
        if r.status == 'optimal' and k % 4 == 0:
            beyond = (r.value + 1, None) if sense == 'max' else (None, r.value - 1)
            r2 = solve(lp.with_row(c, *beyond), c, sense)
            check(r2.status == 'infeasible' and r2.certified, "stress #%d: cut-off optimum not infeasible: %r" % (k, r2))
            r3 = solve(lp.with_row(c, r.value, r.value), c, 'min' if sense == 'max' else 'max')
            check(r3.status == 'optimal' and r3.value == r.value, "stress #%d: pinned optimum: %r" % (k, r3))
    print("stress (no GLPK, up to 25x20, float data): %d LPs, verdicts %s, max iterations %d" % (count, tally, maxit))


def timing(n, m, reps, seed, density, style, p_eq0):
    rng = random.Random(seed)
    tot, worst, tally, its = 0.0, 0.0, {}, 0
    for _ in range(reps):
        cols, rows, c, sense = rand_lp(rng, n, m, density, style, p_eq0)
        lp = mk(cols, rows)
        t0 = time.perf_counter()
        r = solve(lp, c, sense)
        dt = time.perf_counter() - t0
        tot, worst, its = tot + dt, max(worst, dt), its + r.iterations
        tally[r.status] = tally.get(r.status, 0) + 1
        check(r.certified, "timing %dx%d: uncertified" % (n, m))
    print("timing %2d cols x %2d rows (density %.2f, %-7s, P[eq row]=%.1f): mean %.2f ms, worst %.2f ms, mean iterations %.1f, %s"
          % (n, m, density, style, p_eq0, 1e3 * tot / reps, 1e3 * worst, its / reps, tally))


if __name__ == '__main__':
    count = int(sys.argv[1]) if len(sys.argv) > 1 else 3000
    seed = int(sys.argv[2]) if len(sys.argv) > 2 else 20260926
    hand_made()
    negative_verify()
    print("hand-made + negative tests: %d checks, %d failures" % (CHECKS[0], len(FAILS)))
    cross_check(count, seed)
    stress(max(200, count // 3), seed + 1)
    for n, m in ((12, 8), (25, 20)):
        for density, style, p_eq0 in ((0.15, 'flux0', 1.0), (0.15, 'flux', 1.0), (0.15, 'planted', 0.8),
                                      (0.35, 'flux0', 1.0), (0.35, 'planted', 0.8)):
            timing(n, m, 200, seed + n, density, style, p_eq0)
    print("TOTAL: %d checks, %d failures" % (CHECKS[0], len(FAILS)))
    sys.exit(1 if FAILS else 0)
