"""Exact FBA oracle: builds the flux-balance LP of a RefModel in rationals (reflp) and judges
what cobrapy's optimize()/slim_optimize()/accessors report (C04; reused by the POOL engine)."""
from __future__ import annotations

import math
from fractions import Fraction

from . import reflp
from .core import Violation
from .refmodel import reverse_id

TOL = 1e-6


def build_lp(ref, extra_fixed=None):
    """Net-flux LP of the reference: columns = reactions (+ user variables), rows = metabolites
    (+ user constraints).  Returns (lp, index, rows_info) or None if a user object is not
    expressible in net fluxes."""
    rids = sorted(ref.rxns)
    uvars = sorted(n for n, u in ref.user.items() if u["kind"] == "var")
    index = {r: j for j, r in enumerate(rids)}
    for n in uvars:
        index[n] = len(index)
    lp = reflp.LP(len(index))
    for r in rids:
        x = ref.rxns[r]
        lo, hi = x["lb"], x["ub"]
        if extra_fixed and r in extra_fixed:
            lo, hi = extra_fixed[r]
        lp.set_col(index[r], None if lo == -math.inf else lo, None if hi == math.inf else hi)
    for n in uvars:
        u = ref.user[n]
        lp.set_col(index[n], None if u["lb"] == -math.inf else u["lb"], None if u["ub"] == math.inf else u["ub"])
    met_rows = {}
    slack = {}
    for n in uvars:
        for m, c in (ref.user[n].get("met_rows") or {}).items():
            if m not in ref.mets:
                return None  # recorded for a metabolite that has been renamed/removed since: not expressible
            slack.setdefault(m, {})[index[n]] = c
    for m in sorted(ref.mets):
        coefs = {index[r]: ref.rxns[r]["mets"][m] for r in rids if m in ref.rxns[r]["mets"]}
        coefs.update(slack.get(m, {}))  # user variables explicitly put into the row (add_lp_feasibility)
        met_rows[m] = lp.add_row(coefs, 0, 0)
    for n, u in sorted(ref.user.items()):
        if u["kind"] != "con":
            continue
        coefs = {}
        seen = set()
        for r in rids:
            cf, cr = u["coefs"].get(r, 0), u["coefs"].get(reverse_id(r), 0)
            seen |= {r, reverse_id(r)}
            if cf != -cr:
                return None
            if cf:
                coefs[index[r]] = cf
        for vn, c in u["coefs"].items():
            if vn in seen:
                continue
            if vn not in index:
                return None
            coefs[index[vn]] = c
        lp.add_row(coefs, None if u["lb"] == -math.inf else u["lb"], None if u["ub"] == math.inf else u["ub"])
    return lp, index, met_rows


def solve_ref(ref, direction=None, objective=None, extra_fixed=None):
    """Exact optimum of the reference's FBA problem; returns (result, lp, index, met_rows) or None."""
    if ref.obj is None and objective is None:
        return None
    built = build_lp(ref, extra_fixed)
    if built is None:
        return None
    lp, index, met_rows = built
    obj = ref.obj if objective is None else objective
    c = {index[r]: v for r, v in obj.items() if r in index}
    res = reflp.solve(lp, c, direction or ref.direction)
    if not res.certified:
        return None
    if res.status == "infeasible" and not robustly_infeasible(lp):
        return None  # infeasible only by less than the solver tolerance (e.g. a bound computed from a float optimum)
    return res, lp, index, met_rows


def robustly_infeasible(lp, eps=1e-6):
    """True iff the LP stays infeasible when every finite bound is relaxed by eps*(1+|bound|)."""
    r = reflp.LP(lp.ncols)
    F = reflp.Fraction

    def lo_(b):
        return None if b is None else b - F(eps) * (1 + abs(b))

    def hi_(b):
        return None if b is None else b + F(eps) * (1 + abs(b))

    for j in range(lp.ncols):
        r.set_col(j, lo_(lp.lo[j]), hi_(lp.hi[j]))
    for i, row in enumerate(lp.rows):
        r.add_row(dict(row), lo_(lp.row_lo[i]), hi_(lp.row_hi[i]))
    res = reflp.solve(r, {}, "max")
    return res.certified and res.status == "infeasible"


def _f(x):
    return float(x)


def check_point(ref, fluxes, what="fluxes"):
    """Steady state, bounds and user constraints on the *reference* stoichiometry.  `fluxes`:
    {rid: value} (user variables are not part of a Solution, so rows using them are skipped)."""
    probs = []
    for r, x in ref.rxns.items():
        v = fluxes.get(r)
        if v is None or math.isnan(v):
            probs.append(f"{what}: no value for {r}")
            continue
        if v < x["lb"] - TOL * (1 + abs(x["lb"])) if x["lb"] != -math.inf else False:
            probs.append(f"{what}: {r}={v} below lower bound {x['lb']}")
        if v > x["ub"] + TOL * (1 + abs(x["ub"])) if x["ub"] != math.inf else False:
            probs.append(f"{what}: {r}={v} above upper bound {x['ub']}")
    slack_rows = {m for u in ref.user.values() if u["kind"] == "var" for m in (u.get("met_rows") or {})}
    for m in ref.mets:
        if m in slack_rows:
            continue  # the row holds a user variable whose value a Solution does not report
        terms = [x["mets"][m] * fluxes.get(r, 0.0) for r, x in ref.rxns.items() if m in x["mets"]]
        if abs(sum(terms)) > TOL * (1 + max([abs(t) for t in terms] or [0])):
            probs.append(f"{what}: steady state of {m} violated by {sum(terms)}")
    uvars = {n for n, u in ref.user.items() if u["kind"] == "var"}
    for n, u in ref.user.items():
        if u["kind"] != "con" or set(u["coefs"]) & uvars:
            continue
        val, ok = 0.0, True
        for r in ref.rxns:
            cf, cr = u["coefs"].get(r, 0), u["coefs"].get(reverse_id(r), 0)
            if cf != -cr:
                ok = False
            val += cf * fluxes.get(r, 0.0)
        if not ok:
            continue
        if u["lb"] != -math.inf and val < u["lb"] - TOL * (1 + abs(u["lb"])):
            probs.append(f"{what}: user constraint {n} = {val} below {u['lb']}")
        if u["ub"] != math.inf and val > u["ub"] + TOL * (1 + abs(u["ub"])):
            probs.append(f"{what}: user constraint {n} = {val} above {u['ub']}")
    return probs


def dual_certificate(ref, y, direction, opt):
    """Weak-duality bound given metabolite duals y ({mid: price}) for the FBA problem without user
    objects: d = c - S^T y; the bound must equal the optimum for y to certify it."""
    bound = 0.0
    d = {}
    for r, x in ref.rxns.items():
        dj = ref.obj.get(r, 0.0) - sum(c * y.get(m, 0.0) for m, c in x["mets"].items())
        d[r] = dj
        if abs(dj) < 1e-7:
            continue
        lo, hi = x["lb"], x["ub"]
        if direction == "max":
            pick = hi if dj > 0 else lo
        else:
            pick = lo if dj > 0 else hi
        if math.isinf(pick):
            return None, d
        bound += dj * pick
    return bound, d


def frozen(sol):
    return {
        "objective_value": None if sol.objective_value is None else float(sol.objective_value),
        "status": sol.status,
        "fluxes": {k: float(v) for k, v in sol.fluxes.items()},
        "reduced_costs": {k: float(v) for k, v in sol.reduced_costs.items()},
        "shadow_prices": {k: float(v) for k, v in sol.shadow_prices.items()},
    }


def _same(a, b):
    if isinstance(a, float) and isinstance(b, float):
        return a == b or (math.isnan(a) and math.isnan(b))
    if isinstance(a, dict) and isinstance(b, dict):
        return a.keys() == b.keys() and all(_same(a[k], b[k]) for k in a)
    return a == b


def frozen_changed(sol, fz):
    now = frozen(sol)
    return [k for k in fz if not _same(now[k], fz[k])]


def close(a, b):
    return abs(a - b) <= TOL * max(1.0, abs(b))


def _accessors_without_optimum(model, stats):
    """The per-object accessors read after a solve without optimum: they raise OptimizationError or - for a status that still has
    primal values - warn and return the solver's numbers (check_solver_status); any other exception class is not an answer."""
    import warnings

    from cobra.exceptions import OptimizationError

    if model.solver.status in (None, "optimal"):
        return
    for what, objs, attr in (("reaction.flux", model.reactions, "flux"), ("reaction.reduced_cost", model.reactions, "reduced_cost"),
                             ("metabolite.shadow_price", model.metabolites, "shadow_price")):
        for o in list(objs)[:2]:
            try:
                with warnings.catch_warnings():
                    warnings.simplefilter("ignore")
                    getattr(o, attr)
            except (OptimizationError, RuntimeError):
                continue
            except Exception as e:
                raise Violation("fba_verdict", {"what": f"{what} raises {type(e).__name__} instead of OptimizationError after a solve "
                                                        f"that ended {model.solver.status}", "exception": repr(e)[:200]})
    stats["probe:accessors_read_without_optimum"] += 1


def judge_optimize(ref, op, sol, raised, model, stats, kf_rc_factor2):
    """Oracles fba_opt / fba_verdict for one optimize() call."""
    from cobra.exceptions import OptimizationError

    direction = {"maximize": "max", "minimize": "min"}.get(op.get("sense"), ref.direction)
    r = solve_ref(ref, direction)
    if r is None:
        stats["oracle_skip:fba"] += 1
        return
    res, lp, index, met_rows = r
    stats[f"probe:fba_truth_{res.status}"] += 1
    if raised is not None:
        if not isinstance(raised, OptimizationError):
            if res.status == "optimal":
                raise Violation("fba_verdict", {"what": "optimize raised on a model with an optimum", "exception": repr(raised)[:200]})
            return
        if res.status == "optimal":
            raise Violation("fba_verdict", {"what": "optimize(raise_error=True) raised although an optimum exists",
                                            "exception": repr(raised)[:200], "exact_optimum": _f(res.value)})
        # optimize() may raise OptimizationError for a status without primal values (e.g. unbounded) even
        # without raise_error; the property only demands that the status is never optimal
        _accessors_without_optimum(model, stats)
        return
    if res.status != "optimal":
        if sol.status == "optimal":
            raise Violation("fba_verdict", {"what": f"status optimal although the problem is {res.status}",
                                            "objective_value": sol.objective_value})
        _accessors_without_optimum(model, stats)
        if op.get("raise_error"):
            raise Violation("fba_verdict", {"what": f"raise_error=True did not raise on a {res.status} problem", "status": sol.status})
        return
    if sol.status != "optimal":
        raise Violation("fba_verdict", {"what": f"status {sol.status} although an optimum exists", "exact_optimum": _f(res.value)})
    opt = _f(res.value)
    if not close(sol.objective_value, opt):
        raise Violation("fba_opt", {"what": "objective value is not the true optimum", "got": sol.objective_value, "exact": opt})
    fl = {k: float(v) for k, v in sol.fluxes.items()}
    if set(fl) != set(ref.rxns):
        raise Violation("fba_opt", {"what": "flux index != reactions", "got": sorted(fl), "want": sorted(ref.rxns)})
    probs = check_point(ref, fl)
    cv = sum(c * fl[r2] for r2, c in ref.obj.items())
    if not close(cv, sol.objective_value) and abs(cv - sol.objective_value) > TOL:
        probs.append(f"objective value {sol.objective_value} != c.v = {cv}")
    if probs:
        raise Violation("fba_opt", {"problems": probs[:6]})
    if not ref.user:
        y = {k: float(v) for k, v in sol.shadow_prices.items()}
        if set(y) != set(ref.mets):
            raise Violation("fba_opt", {"what": "shadow price index != metabolites"})
        bound, d = dual_certificate(ref, y, direction, opt)
        if bound is None or abs(bound - opt) > 1e-5 * max(1.0, abs(opt)):
            raise Violation("fba_dual", {"what": "shadow prices do not certify the optimum", "dual_bound": bound, "optimum": opt})
        rc = {k: float(v) for k, v in sol.reduced_costs.items()}
        bad1 = [k for k in d if abs(rc[k] - d[k]) > 1e-6 * max(1.0, abs(d[k]))]
        if bad1:
            bad2 = [k for k in d if abs(rc[k] - 2 * d[k]) > 1e-6 * max(1.0, abs(d[k]))]
            if not bad2:
                stats["known:reduced_cost_factor_2"] += 1
                if not kf_rc_factor2:
                    raise Violation("fba_reduced_cost", {"what": "reduced costs are exactly twice c - S^T y",
                                                         "reaction": bad1[0], "got": rc[bad1[0]], "want": d[bad1[0]]})
            else:
                raise Violation("fba_reduced_cost_other", {"what": "reduced costs are neither c - S^T y nor twice that", "reaction": bad2[0],
                                                           "got": rc[bad2[0]], "c-S^Ty": d[bad2[0]]})
        stats["probe:duals_checked"] += 1
    # per-object accessors read right after the solve
    for rxn in model.reactions:
        if abs(rxn.flux - fl[rxn.id]) > 0 or (rxn.reduced_cost != float(sol.reduced_costs[rxn.id])):
            raise Violation("fba_opt", {"what": "reaction.flux/reduced_cost differ from the Solution", "reaction": rxn.id})
    for met in model.metabolites:
        if met.shadow_price != float(sol.shadow_prices[met.id]):
            raise Violation("fba_opt", {"what": "metabolite.shadow_price differs from the Solution", "metabolite": met.id})
    stats["probe:fba_optimum_checked"] += 1


def judge_slim(ref, op, value, raised, model, stats):
    from cobra.exceptions import OptimizationError

    r = solve_ref(ref)
    if r is None:
        stats["oracle_skip:fba"] += 1
        return
    res = r[0]
    has_ev = "error_value" in op
    ev = op.get("error_value", float("nan"))
    if raised is not None:
        if res.status == "optimal" or not isinstance(raised, OptimizationError) or not (has_ev and ev is None):
            raise Violation("fba_verdict", {"what": "slim_optimize raised", "exception": repr(raised)[:200], "truth": res.status})
        # the documented "matching exception" per solver status, written down here - not read from the library's own table, which is
        # part of what is being checked
        import cobra.exceptions as ce

        want = {"infeasible": ce.Infeasible, "unbounded": ce.Unbounded, "feasible": ce.FeasibleButNotOptimal,
                "undefined": ce.UndefinedSolution}.get(model.solver.status, OptimizationError)
        if type(raised) is not want:
            raise Violation("fba_verdict", {"what": "exception class does not match the solver status",
                                            "status": model.solver.status, "exception": type(raised).__name__})
        ok_status = {"infeasible": ("infeasible", "undefined"), "unbounded": ("unbounded", "undefined")}[res.status]
        if model.solver.status not in ok_status:
            raise Violation("fba_verdict", {"what": f"solver status {model.solver.status} on a {res.status} problem"})
        return
    if res.status == "optimal":
        if not isinstance(value, float) or math.isnan(value) or not close(value, _f(res.value)):
            raise Violation("fba_opt", {"what": "slim_optimize value is not the true optimum", "got": value, "exact": _f(res.value)})
        stats["probe:slim_optimum_checked"] += 1
    else:
        if has_ev and ev is None:
            raise Violation("fba_verdict", {"what": f"slim_optimize(error_value=None) returned {value} on a {res.status} problem"})
        same = (isinstance(value, float) and math.isnan(value) and math.isnan(ev)) or value == ev
        if not same:
            raise Violation("fba_verdict", {"what": f"slim_optimize returned {value} instead of the error value on a {res.status} problem"})
        stats["probe:slim_error_value_checked"] += 1
