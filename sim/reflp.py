"""reflp -- an independent, exact LP oracle over ``fractions.Fraction``.

Purpose: check the verdicts/values of a floating-point LP solver (GLPK) on small
problems (<= ~25 columns, <= ~20 rows).

    maximise | minimise   c.x
    subject to            row_lo[i] <= A[i].x <= row_hi[i]      (rows)
                          lo[j]     <=  x[j]  <= hi[j]          (columns)

An infinite bound is ``None`` (``INF``); ``float('inf')`` / ``-inf`` are accepted too.
Floats are converted exactly (``Fraction(x)``), never rounded.

Trusted base: this file + ``fractions``.  Within this file only ``verify`` (and the tiny
helpers it uses: ``_cvec``, ``_dot``, ``_feasible``, ``_upper_bound``) has to be right:
``solve`` runs a bounded-variable two-phase primal simplex (fraction-free integer tableau,
Dantzig pricing with Bland's rule after degenerate steps, so it terminates), turns its final
basis into a certificate and hands that to ``verify``, which re-checks it
in exact arithmetic from the *original* LP data without looking at any simplex state.
If the certificate does not check out (or ``max_iter`` is hit) the answer is
``status='unknown', certified=False``.  A simplex bug can thus make the oracle fail to
answer, but it cannot make it return a wrong certified answer.

Certificates (d = c - A^T y are the implied reduced costs of the columns):
  optimal     x primal feasible, and the weak-duality bound obtained from (y, d) equals
              c.x:  c.x = d.x + y.(Ax) <= sum_j d_j*[hi_j if d_j>0 else lo_j]
                                       +  sum_i y_i*[row_hi_i if y_i>0 else row_lo_i]
              (for 'min' the inequality and the bound choices are mirrored).  Sign
              convention of y: d(objective)/d(row bound), for both senses (as GLPK).
  infeasible  Farkas multipliers y: the same bound for the objective c=0 is < 0,
              i.e. 0 = 0.x <= bound < 0.  Or trivially some lo > hi (``Result.trivial``).
  unbounded   x primal feasible and a ray r in the recession cone with c.r improving.
"""
from fractions import Fraction
from math import lcm

INF = None
_Z = Fraction(0)


def _num(v):
    return v if isinstance(v, Fraction) else Fraction(v)


def _bnd(v, sign):
    """Bound -> Fraction or None.  sign=-1 for a lower bound, +1 for an upper bound."""
    if v is None:
        return None
    if isinstance(v, float) and v in (float('inf'), float('-inf')):
        if (v > 0) != (sign > 0):
            raise ValueError("lower bound +inf / upper bound -inf")
        return None
    return _num(v)


class LP:
    """maximise or minimise  c.x  subject to  row_lo[i] <= A[i].x <= row_hi[i],  lo[j] <= x[j] <= hi[j]

    Columns default to free (-inf, +inf).  Data: ncols, lo, hi, rows (list of {col: Fraction}),
    row_lo, row_hi."""

    def __init__(self, ncols):
        self.ncols = int(ncols)
        self.lo = [None] * self.ncols
        self.hi = [None] * self.ncols
        self.rows, self.row_lo, self.row_hi = [], [], []

    @property
    def nrows(self):
        return len(self.rows)

    def set_col(self, j, lo, hi):
        if not 0 <= j < self.ncols:
            raise IndexError(j)
        self.lo[j], self.hi[j] = _bnd(lo, -1), _bnd(hi, +1)

    def add_row(self, coeffs, lo, hi):
        row = {}
        for j, a in coeffs.items():
            if not 0 <= j < self.ncols:
                raise IndexError(j)
            if a != 0:
                row[j] = _num(a)
        self.rows.append(row)
        self.row_lo.append(_bnd(lo, -1))
        self.row_hi.append(_bnd(hi, +1))
        return len(self.rows) - 1

    def copy(self):
        new = LP(self.ncols)
        new.lo, new.hi = self.lo[:], self.hi[:]
        new.rows = [dict(r) for r in self.rows]
        new.row_lo, new.row_hi = self.row_lo[:], self.row_hi[:]
        return new

    def with_row(self, coeffs, lo, hi):
        new = self.copy()
        new.add_row(coeffs, lo, hi)
        return new


class Result:
    """status: 'optimal' | 'infeasible' | 'unbounded' | 'unknown';  see module docstring.
    trivial: ('col', j) / ('row', i) when infeasibility is a bound pair with lo > hi.
    claimed: the (unverified) simplex verdict, for diagnosing an 'unknown'.  iterations: pivots+flips."""

    def __init__(self, status, value=None, x=None, y=None, ray=None, trivial=None):
        self.status, self.value, self.x, self.y, self.ray = status, value, x, y, ray
        self.trivial, self.certified, self.claimed, self.iterations = trivial, False, status, 0

    def __repr__(self):
        v = '' if self.value is None else ', value=%s' % self.value
        return 'Result(%s%s, certified=%s)' % (self.status, v, self.certified)


# ----------------------------------------------------------------------------------------------
# Trusted part: evaluation, feasibility, certificate verification.  No simplex logic in here.
# ----------------------------------------------------------------------------------------------

def _cvec(lp, c):
    """Objective given as {col: coeff} or as a sequence -> list of Fractions of length ncols."""
    if isinstance(c, dict):
        out = [_Z] * lp.ncols
        for j, a in c.items():
            if not 0 <= j < lp.ncols:
                raise IndexError(j)
            out[j] = _num(a)
        return out
    if len(c) != lp.ncols:
        raise ValueError("objective length != ncols")
    return [_num(a) for a in c]


def _dot(row, x):
    return sum((a * x[j] for j, a in row.items()), _Z)


def evaluate(expr, x):
    """Exact value of a linear expression ({col: coeff} or coefficient sequence) at point x."""
    items = expr.items() if isinstance(expr, dict) else enumerate(expr)
    return sum((_num(a) * _num(x[j]) for j, a in items), _Z)


def is_feasible_point(lp, x, tol=0):
    """(ok, worst_violation): check a numeric vector (floats converted exactly) against all column
    and row bounds; a bound b may be violated by at most tol*(1+|b|).  worst_violation is the
    largest absolute violation found (Fraction, 0 if none)."""
    if len(x) != lp.ncols:
        raise ValueError("len(x) != ncols")
    x, tol = [_num(v) for v in x], _num(tol)
    ok, worst = True, _Z
    acts = [_dot(r, x) for r in lp.rows]
    for vals, los, his in ((x, lp.lo, lp.hi), (acts, lp.row_lo, lp.row_hi)):
        for v, lo, hi in zip(vals, los, his):
            for viol, b in ((None if lo is None else lo - v, lo), (None if hi is None else v - hi, hi)):
                if viol is not None and viol > 0:
                    worst = max(worst, viol)
                    if viol > tol * (1 + abs(b)):
                        ok = False
    return ok, worst


def _feasible(lp, x):
    return (x is not None and len(x) == lp.ncols and all(isinstance(v, Fraction) for v in x)
            and is_feasible_point(lp, x, 0)[0])


def _upper_bound(lp, c, y):
    """Weak-duality upper bound on c.x over the feasible set from row multipliers y, or None if it
    is +inf (a nonzero multiplier meets an infinite bound).  For every feasible x:
    c.x = d.x + y.(Ax) with d = c - A^T y, and each term is bounded by multiplier * proper bound."""
    d = list(c)
    for row, yi in zip(lp.rows, y):
        for j, a in row.items():
            d[j] -= yi * a
    total = _Z
    for mult, los, his in ((d, lp.lo, lp.hi), (y, lp.row_lo, lp.row_hi)):
        for m, lo, hi in zip(mult, los, his):
            if m != 0:
                b = hi if m > 0 else lo
                if b is None:
                    return None
                total += m * b
    return total


def verify(lp, c, sense, result):
    """True iff `result` carries a certificate proving result.status for (lp, c, sense), checked in
    exact arithmetic using only the LP data and result.{x, y, ray, value}."""
    if sense not in ('max', 'min'):
        return False
    c = _cvec(lp, c)
    n, m = lp.ncols, lp.nrows
    sgn = 1 if sense == 'max' else -1

    def vec_ok(v, k):
        return v is not None and len(v) == k and all(isinstance(t, Fraction) for t in v)

    if result.status == 'optimal':
        if not (_feasible(lp, result.x) and vec_ok(result.y, m)):
            return False
        value = evaluate(c, result.x)
        # min c.x = -max (-c).x ; multipliers for the mirrored problem are -y
        bound = _upper_bound(lp, [sgn * a for a in c], [sgn * t for t in result.y])
        return bound is not None and sgn * bound == value and result.value == value
    if result.status == 'infeasible':
        if any(l is not None and h is not None and l > h
               for l, h in list(zip(lp.lo, lp.hi)) + list(zip(lp.row_lo, lp.row_hi))):
            return True
        if not vec_ok(result.y, m):
            return False
        bound = _upper_bound(lp, [_Z] * n, result.y)
        return bound is not None and bound < 0
    if result.status == 'unbounded':
        r = result.ray
        if not (_feasible(lp, result.x) and vec_ok(r, n)):
            return False
        for v, lo, hi in list(zip(r, lp.lo, lp.hi)) + \
                [(_dot(row, r), lo, hi) for row, lo, hi in zip(lp.rows, lp.row_lo, lp.row_hi)]:
            if (lo is not None and v < 0) or (hi is not None and v > 0):
                return False
        return sgn * evaluate(c, r) > 0
    return False


# ----------------------------------------------------------------------------------------------
# Untrusted part: bounded-variable two-phase primal simplex.
# Variables z = (x[0..n), s[0..m), a[...]) with  k_i A_i x - s_i (+/- a_i) = 0  where k_i > 0 makes row i
# integral, s_i in [k_i row_lo_i, k_i row_hi_i], and artificials a >= 0 for the rows whose initial
# activity is out of range.  All right-hand sides are 0, so the state is the point z (Fractions) and the
# tableau B^-1 [KA, -I, +/-I], stored fraction-free: integer matrix T with one common denominator D > 0
# (D = |det B|, "integer pivoting"); the last row of T holds the reduced costs of an integer objective.
# Pricing: Dantzig, but Bland's least-index rule after every degenerate step (so no cycling); ties in
# the ratio test are always broken by least index.
# ----------------------------------------------------------------------------------------------

class _Tableau:
    def __init__(self, lp):
        n, m = lp.ncols, lp.nrows
        self.n, self.m, self.D, self.iters = n, m, 1, 0
        self.lo, self.hi = lp.lo + [None] * m, lp.hi + [None] * m
        z = []                # nonbasic structurals start at the finite bound nearer to 0, free ones at 0
        for lo, hi in zip(lp.lo, lp.hi):
            if lo is None:
                z.append(_Z if hi is None else hi)
            else:
                z.append(lo if hi is None or abs(lo) <= abs(hi) else hi)
        self.T, self.scale, arts = [], [], []
        for i, row in enumerate(lp.rows):
            k = lcm(*[a.denominator for a in row.values()])
            act = k * _dot(row, z)
            lo = self.lo[n + i] = None if lp.row_lo[i] is None else k * lp.row_lo[i]
            hi = self.hi[n + i] = None if lp.row_hi[i] is None else k * lp.row_hi[i]
            below, above = lo is not None and act < lo, hi is not None and act > hi
            sg = 1 if below else -1                  # the row is stored as  sg*(k A_i x - s_i) [+ a_i] = 0
            t = [0] * (n + m)
            for j, a in row.items():
                t[j] = sg * (k * a).numerator
            t[n + i] = -sg
            self.T.append(t)
            self.scale.append(k)
            z.append(lo if below else hi if above else act)
            arts.append(lo - act if below else act - hi if above else None)
        self.art0 = n + m
        self.basis = [n + i for i in range(m)]       # slack basic, unless the row needs an artificial
        for i, a in enumerate(arts):
            if a is not None:
                self.basis[i] = len(z)
                for r, t in enumerate(self.T):
                    t.append(1 if r == i else 0)
                z.append(a)
                self.lo.append(_Z)
                self.hi.append(None)
        self.z, self.N = z, len(z)
        self.T.append([0] * self.N)
        self.inbasis = [False] * self.N
        for b in self.basis:
            self.inbasis[b] = True

    def price(self, cost):
        """Install the integer objective `cost`: last row of T = D*cost - cost_B^T T."""
        cost = list(cost) + [0] * (self.N - len(cost))
        d = [self.D * v for v in cost]
        for t, b in zip(self.T, self.basis):
            if cost[b] != 0:
                d = [dj - cost[b] * v for dj, v in zip(d, t)]
        self.T[-1] = d

    def run(self, max_iter):
        """Maximise.  Returns ('optimal', None) | ('unbounded', (q, direction)) | ('iter', None)."""
        T, z, lo, hi, basis, inb, m = self.T, self.z, self.lo, self.hi, self.basis, self.inbasis, self.m
        bland = False
        while True:
            q, best = None, 0
            for j, dj in enumerate(T[-1]):           # entering variable: improving nonbasic with room to move
                if dj == 0 or inb[j]:
                    continue
                if (hi[j] is None or z[j] < hi[j]) if dj > 0 else (lo[j] is None or z[j] > lo[j]):
                    if abs(dj) > best:
                        q, best, s = j, abs(dj), (1 if dj > 0 else -1)
                        if bland:
                            break
            if q is None:
                return 'optimal', None
            if self.iters >= max_iter:
                return 'iter', None
            self.iters += 1
            # ratio test; leave=None means the entering variable just flips to its other bound
            D = self.D
            step = None if lo[q] is None or hi[q] is None else hi[q] - lo[q]
            leave = None
            for i in range(m):
                a = T[i][q]
                if a == 0:
                    continue
                b = basis[i]
                lim = hi[b] if (a < 0) == (s > 0) else lo[b]      # basic var moves at rate -s*a/D
                if lim is None:
                    continue
                t = (lim - z[b]) * D / (-a * s)
                if step is None or t < step or (t == step and leave is not None and b < basis[leave]):
                    step, leave = t, i
            if step is None:
                return 'unbounded', (q, s)
            bland = step == 0
            if not bland:
                z[q] += s * step
                for i in range(m):
                    if T[i][q] != 0:
                        z[basis[i]] -= s * step * T[i][q] / D
            if leave is None:
                continue
            if T[leave][q] < 0:
                T[leave] = [-v for v in T[leave]]
            row = T[leave]
            p = row[q]
            for i, t in enumerate(T):                # integer pivot: T[i] <- (p*T[i] - T[i][q]*row) / D, exactly
                if i == leave:
                    continue
                a = t[q]
                if a != 0:
                    T[i] = [(p * v - a * w) // D for v, w in zip(t, row)]
                elif p != D:
                    T[i] = [p * v // D if v else 0 for v in t]
            self.D = p
            out = basis[leave]
            inb[out], inb[q], basis[leave] = False, True, q
            if out >= self.art0:                     # an artificial that left never comes back: drop its column
                hi[out] = _Z
                for t in T:
                    t[out] = 0


def solve(lp, c, sense='max', max_iter=20000):
    """Solve exactly; the returned Result is certified by `verify` or has status 'unknown'."""
    if sense not in ('max', 'min'):
        raise ValueError("sense must be 'max' or 'min'")
    cv = _cvec(lp, c)
    n, m = lp.ncols, lp.nrows
    res = None
    for kind, los, his in (('col', lp.lo, lp.hi), ('row', lp.row_lo, lp.row_hi)):
        for k, (l, h) in enumerate(zip(los, his)):
            if res is None and l is not None and h is not None and l > h:
                res = Result('infeasible', trivial=(kind, k))
    if res is None:
        tab = _Tableau(lp)
        sgn = 1 if sense == 'max' else -1

        def duals(div):      # multipliers of the original rows = (row scale) * (reduced cost of the slack) / div
            return [k * Fraction(d, div) for k, d in zip(tab.scale, tab.T[-1][n:n + m])]

        outcome = 'optimal'
        if tab.N > tab.art0:                         # phase 1: maximise -(sum of artificials)
            tab.price([0] * tab.art0 + [-1] * (tab.N - tab.art0))
            outcome, _ = tab.run(max_iter)
            if outcome == 'optimal' and any(tab.z[k] != 0 for k in range(tab.art0, tab.N)):
                res = Result('infeasible', y=duals(tab.D))
            elif outcome == 'unbounded':             # impossible; treat as a failure
                outcome = 'iter'
            for k in range(tab.art0, tab.N):
                tab.hi[k] = _Z
        if res is None and outcome == 'optimal':     # phase 2 on the integer objective sgn*cscale*c
            cscale = lcm(*[a.denominator for a in cv])
            tab.price([(sgn * cscale * a).numerator for a in cv])
            outcome, info = tab.run(max_iter)
            x = tab.z[:n]
            if outcome == 'optimal':
                res = Result('optimal', value=evaluate(cv, x), x=x, y=duals(sgn * tab.D * cscale))
            elif outcome == 'unbounded':
                q, s = info
                ray = [_Z] * n
                if q < n:
                    ray[q] = Fraction(s)
                for t, b in zip(tab.T, tab.basis):
                    if b < n:
                        ray[b] = Fraction(-t[q] * s, tab.D)
                res = Result('unbounded', x=x, ray=ray)
        if res is None:
            res = Result('unknown')
            res.claimed = 'iteration limit'
        res.iterations = tab.iters
    res.certified = res.status != 'unknown' and verify(lp, cv, sense, res)
    if not res.certified:
        res.status = 'unknown'
    return res


def minmax(lp, j_or_expr):
    """(Result_min, Result_max) of a single column (int) or a linear expression {col: coeff}."""
    expr = j_or_expr if isinstance(j_or_expr, (dict, list, tuple)) else {j_or_expr: 1}
    return solve(lp, expr, 'min'), solve(lp, expr, 'max')
