"""Trigger predicates of open known findings: narrow, named tests on (trace, violation).

A predicate answers "is this minimised violation an instance of the recorded finding?"; the same
names are consulted by the engines (run_cfg["quarantine"]) so that the search does not keep tripping
over a recorded defect.  A trigger is only active while its finding's stored replay still fails.
"""
import json

LIFECYCLE = ("copy", "deepcopy", "pickle", "restart", "prune", "merge")


def _text(violation):
    return json.dumps(violation.get("detail"), default=repr)


def optlang_dblmax(trace, violation):
    """optlang reports DBL_MAX for infinite bounds of a problem restored from GLPK's file format;
    a later solver switch writes that value into the new problem as a finite bound."""
    t = _text(violation)
    return "1.7976931348623" in t and any(o["op"] in LIFECYCLE for o in trace["ops"])


def optlang_exact_clone(trace, violation):
    """An unpickled / deep-copied glpk_exact solver holds glpk_interface constraint objects; optlang
    refuses to add them back when a context undoes their removal."""
    ops = trace["ops"]
    exact = trace["cfg"]["model"].get("solver") == "glpk_exact" or any(
        o["op"] == "solver" and o.get("name") == "glpk_exact" for o in ops)
    return exact and any(o["op"] in LIFECYCLE for o in ops) and any(o["op"] == "enter" for o in ops)


def dict_direction_dropped(trace, violation):
    """dict/JSON/YAML do not store the objective direction: a `min` model loads as `max`."""
    d = (violation.get("detail") or {}).get("diff(loaded,saved)")
    c = violation.get("culprit") or {}
    return c.get("op") == "restart" and c.get("fmt") in ("dict", "json", "yaml") and d == ["/direction: max != min"]


def solver_switch_in_context(trace, violation):
    """The solver interface is switched while a context is open: earlier undo entries still point at the old solver's objects."""
    depth = {}
    for o in trace["ops"]:
        a = o.get("actor", 0)
        if o["op"] == "enter":
            depth[a] = depth.get(a, 0) + 1
        elif o["op"] in ("exit", "exit_exc"):
            depth[a] = max(0, depth.get(a, 0) - 1)
        elif o["op"] == "solver" and depth.get(a, 0) > 0:
            return True
    return False


def has_long_id(op):
    """A reaction identifier so long that the reverse variable's name (id + 14 characters) exceeds GLPK's 255."""
    if len(str(op.get("new", ""))) > 241 and op.get("op") == "rename_rxn":
        return True
    return any(isinstance(x, dict) and len(str(x.get("id", ""))) > 241 for x in op.get("rxns", []))


def id_over_solver_name_limit(trace, violation):
    return any(has_long_id(o) for o in trace["ops"])


TRIGGERS = {"solver_switch_in_context": solver_switch_in_context, "id_over_solver_name_limit": id_over_solver_name_limit, "dict_direction_dropped": dict_direction_dropped, "optlang_dblmax": optlang_dblmax, "optlang_exact_clone": optlang_exact_clone}
