"""DLIST engine: histories of DictList operations against a plain-list reference (C15).

Objects come from a fixed universe (index k -> cobra Object with initial id universe[k]); ids
are drawn from a 6-letter alphabet so duplicates are frequent.  Every op is a JSON dict that
refers to objects by universe index, so a trace replays without any PRNG and ddmin can drop
steps freely (a dropped step can only turn later steps into failing ones, which are legal).
"""
from __future__ import annotations

import copy
import pickle
import re

from ..core import RunResult, Streams, Violation, digest

SHRINK_LISTS = ("ops",)
ALPHABET = ["a", "b", "c", "d", "e", "f"]
EXTRA_IDS = ["g", "h", "a.1", "B"]

OP_KINDS = [
    "append", "insert", "extend", "iadd", "isub", "add", "union", "setitem", "setslice",
    "delitem", "delslice", "pop", "popi", "remove", "remove_id", "sort", "reverse", "copy",
    "pickle", "getslice", "binadd", "binsub", "query", "ctor", "replace_on_id", "rename",
    "get_by_any", "deepcopy", "clear", "imul",
]


class World:
    def __init__(self, cfg):
        from cobra.core.dictlist import DictList
        from cobra.core.object import Object

        self.DictList = DictList
        self.universe = [Object(i, name=f"n{k}") for k, i in enumerate(cfg["universe"])]
        self.dl = DictList()
        self.ref = []
        for k in cfg.get("init", []):
            o = self.universe[k]
            if all(o.id != r.id for r in self.ref):
                self.dl.append(o)
                self.ref.append(o)
        self.shadow = None  # (DictList, ref list) kept from an earlier copy; must never change
        self.changed = False

    # ---- oracle ---------------------------------------------------------------------
    def coherent(self, dl, ref, what):
        if len(dl) != len(ref) or any(a is not b for a, b in zip(list.__iter__(dl), ref)):
            raise Violation(
                "content",
                {"what": what, "got": [o.id for o in list.__iter__(dl)], "want": [o.id for o in ref]},
            )
        ids = [o.id for o in ref]
        if len(set(ids)) != len(ids):
            raise Violation("unique", {"what": what, "ids": ids})
        for pos, el in enumerate(ref):
            try:
                g = dl.get_by_id(el.id)
            except Exception as e:
                raise Violation("index", {"what": what, "id": el.id, "pos": pos, "get_by_id": repr(e), "ids": ids})
            if g is not el:
                raise Violation("index", {"what": what, "id": el.id, "pos": pos, "get_by_id": "other element", "ids": ids})
            try:
                i1, i2 = dl.index(el), dl.index(el.id)
            except Exception as e:
                raise Violation("index", {"what": what, "id": el.id, "pos": pos, "index": repr(e), "ids": ids})
            if i1 != pos or i2 != pos:
                raise Violation("index", {"what": what, "id": el.id, "pos": pos, "index": [i1, i2], "ids": ids})
            if not (el.id in dl and el in dl and dl.has_id(el.id)):
                raise Violation("membership", {"what": what, "id": el.id, "ids": ids})
        present = set(ids)
        for i in ALPHABET + EXTRA_IDS:
            if i in present:
                continue
            if i in dl or dl.has_id(i):
                raise Violation("membership", {"what": what, "stale_id": i, "ids": ids})
            try:
                dl.index(i)
                raise Violation("index", {"what": what, "stale_id": i, "ids": ids})
            except ValueError:
                pass
            try:
                dl.get_by_id(i)
                raise Violation("index", {"what": what, "stale_id": i, "ids": ids})
            except KeyError:
                pass
        if len(dl._dict) != len(ref):
            raise Violation("index", {"what": what, "index_size": len(dl._dict), "len": len(ref)})

    # ---- one step -------------------------------------------------------------------
    def apply(self, op, stats):
        k = op["op"]
        U = self.universe
        dl, ref = self.dl, self.ref
        before = list(ref)
        new_ref = None  # expected contents if the op succeeds (None: compute lazily)
        result_check = None
        stats[f"op:{k}"] += 1

        def objs(key="xs"):
            return [U[j] for j in op[key]]

        def operand(key="xs"):
            """The right operand in the shape the operation asks for: (object handed to the DictList, its contents as a plain list)."""
            shape = op.get("as", "list")
            if shape == "self":
                return dl, list(before)
            if shape == "selfslice":
                sl_ = slice(op.get("a"), op.get("b"))
                return dl[sl_], list(before[sl_])
            lst = objs(key)
            if shape == "dictlist":
                if len({o.id for o in lst}) != len(lst):
                    keep, seen = [], set()
                    for o in lst:  # a DictList cannot hold an id twice: first occurrence wins
                        if o.id not in seen:
                            seen.add(o.id)
                            keep.append(o)
                    lst = keep
                return self.DictList(lst), lst
            if shape == "iter":
                return iter(lst), lst
            if shape == "raising_iter":
                def gen():
                    for j, o in enumerate(lst):
                        if j == op.get("after", 0):
                            raise RuntimeError("iterable fails part-way")
                        yield o
                    raise RuntimeError("iterable fails at its end")

                stats["probe:operand_iterable_raises"] += 1
                return gen(), "raises"
            if shape == "bad_entry":
                stats["probe:operand_entry_without_id"] += 1
                return lst + [5], "raises"
            return lst, lst

        raised = None
        try:
            if k == "append":
                new_ref = before + [U[op["x"]]]
                dl.append(U[op["x"]])
            elif k == "insert":
                new_ref = list(before)
                new_ref.insert(op["i"], U[op["x"]])
                dl.insert(op["i"], U[op["x"]])
            elif k == "extend":
                other, oth_list = operand()
                new_ref = before + oth_list if oth_list != "raises" else "raises"
                dl.extend(other)
            elif k == "iadd":
                other, oth_list = operand()
                new_ref = before + oth_list if oth_list != "raises" else "raises"
                dl += other
                if dl is not self.dl:
                    raise Violation("content", {"what": "+= returned another list"})
            elif k == "isub":
                items = [U[j] if isinstance(j, int) else j for j in op["xs"]]
                new_ref = list(before)
                for it in items:  # plain-list semantics; a miss raises ValueError below
                    hit = [o for o in new_ref if (o is it or o.id == it)]
                    if hit:
                        new_ref.remove(hit[0])
                    else:
                        new_ref = "raises"
                        break
                dl -= items
            elif k == "add":
                new_ref = before + [U[op["x"]]]
                dl.add(U[op["x"]])
            elif k == "union":
                other, oth_list = operand()
                if oth_list == "raises":
                    new_ref = "raises"
                else:
                    new_ref = list(before)
                    for o in oth_list:
                        if all(o.id != r.id for r in new_ref):
                            new_ref.append(o)
                dl.union(other)
            elif k == "clear":
                new_ref = []
                dl.clear()
            elif k == "imul":
                # in-place repetition: 0 empties the list, 1 changes nothing, more would duplicate every identifier
                n_ = op["n"]
                new_ref = [] if n_ <= 0 else list(before) if (n_ == 1 or not before) else "raises"
                dl *= n_
                if dl is not self.dl:
                    raise Violation("content", {"what": "*= returned another list"})
            elif k == "setitem":
                new_ref = list(before)
                try:
                    new_ref[op["i"]] = U[op["x"]]
                except IndexError:
                    new_ref = "raises"
                dl[op["i"]] = U[op["x"]]
            elif k == "setslice":
                sl = slice(op["a"], op["b"], op.get("s"))
                new_ref = list(before)
                try:
                    new_ref[sl] = objs()
                except ValueError:
                    new_ref = "raises"
                dl[sl] = objs()
            elif k == "delitem":
                new_ref = list(before)
                try:
                    del new_ref[op["i"]]
                except IndexError:
                    new_ref = "raises"
                del dl[op["i"]]
            elif k == "delslice":
                sl = slice(op["a"], op["b"], op.get("s"))
                new_ref = list(before)
                del new_ref[sl]
                del dl[sl]
            elif k == "pop":
                new_ref = list(before)
                want = new_ref.pop() if new_ref else None
                if not before:
                    new_ref = "raises"
                got = dl.pop()
                if got is not want:
                    raise Violation("content", {"what": "pop returned wrong element"})
            elif k == "popi":
                new_ref = list(before)
                try:
                    want = new_ref.pop(op["i"])
                except IndexError:
                    new_ref, want = "raises", None
                got = dl.pop(op["i"])
                if got is not want:
                    raise Violation("content", {"what": "pop(i) returned wrong element"})
            elif k == "remove":
                o = U[op["x"]]
                new_ref = [r for r in before if r is not o] if any(r is o for r in before) else "raises"
                dl.remove(o)
            elif k == "remove_id":
                new_ref = [r for r in before if r.id != op["id"]] if any(r.id == op["id"] for r in before) else "raises"
                dl.remove(op["id"])
            elif k == "sort":
                if op.get("key") == "fails":
                    # a key function whose keys cannot all be compared: list.sort may leave the list in any order, so "unchanged" cannot
                    # be demanded - the same elements must still be there and every one of them must be found where it now is
                    bad = U[op["bad"]]

                    def keyf(o):
                        # an unorderable key (list.sort computes all keys first, so a key function that itself raises changes
                        # nothing; a comparison that fails half-way leaves the list partly reordered)
                        return 5 if o is bad else o.id

                    try:
                        dl.sort(key=keyf, reverse=op.get("reverse", False))
                        new_ref = sorted(before, key=lambda o: o.id, reverse=op.get("reverse", False))
                    except TypeError:
                        stats["probe:sort_key_raised"] += 1
                        now = list(list.__iter__(dl))
                        if sorted(map(id, now)) != sorted(map(id, before)):
                            raise Violation("content", {"what": "sort with a failing key function lost or duplicated elements"})
                        new_ref = now
                else:
                    keyf = {"id": None, "rev": (lambda o: o.id[::-1]), "name": (lambda o: o.name)}[op.get("key", "id")]
                    new_ref = sorted(before, key=keyf or (lambda o: o.id), reverse=op.get("reverse", False))
                    dl.sort(key=keyf, reverse=op.get("reverse", False))
            elif k == "reverse":
                new_ref = before[::-1]
                dl.reverse()
            elif k in ("copy", "deepcopy"):
                new_ref = before
                if k == "copy":
                    c = copy.copy(dl)
                    self.coherent(c, before, "copy result")
                    # carry on with the copy; the original becomes the shadow
                    self.shadow = (dl, list(before))
                    self.dl = dl = c
                else:
                    c = copy.deepcopy(dl)
                    if [o.id for o in c] != [o.id for o in before] or any(a is b for a, b in zip(c, before)):
                        raise Violation("content", {"what": "deepcopy result"})
                    self.coherent(c, list(list.__iter__(c)), "deepcopy result")
            elif k == "pickle":
                c = pickle.loads(pickle.dumps(dl, protocol=op.get("proto", 2)))
                if [o.id for o in list.__iter__(c)] != [o.id for o in before]:
                    raise Violation("content", {"what": "pickle result", "got": [o.id for o in list.__iter__(c)]})
                newobjs = list(list.__iter__(c))
                self.coherent(c, newobjs, "pickle result")
                # carry on with the unpickled list and its new element objects
                self.shadow = (dl, list(before))
                for old, new in zip(before, newobjs):
                    U[U.index(old)] = new
                self.dl = dl = c
                self.ref = ref = newobjs
                new_ref = newobjs
                before = list(newobjs)
            elif k == "getslice":
                sl = slice(op["a"], op["b"], op.get("s"))
                new_ref = before
                r = dl[sl]
                if not isinstance(r, self.DictList):
                    raise Violation("content", {"what": "slice is not a DictList"})
                self.coherent(r, before[sl], "slice result")
            elif k == "binadd":
                new_ref = before
                other, oth_list = operand()
                if oth_list == "raises":
                    r = dl + other
                    raise Violation("content", {"what": "+ accepted an iterable that raises / an entry without identifier", "operand": op.get("as")})
                exp = before + oth_list
                r = dl + other
                # the operand may be a plain list, another DictList, this very list or a slice of it: whatever it is, a result
                # that carries one identifier twice cannot be coherent - the call has to refuse it (plain list + unique ids)
                if len({o.id for o in exp}) != len(exp):
                    raise Violation("unique", {"what": "+ returned a list with a duplicate id", "ids": [o.id for o in exp], "operand": op.get("as", "list")})
                self.coherent(r, exp, "+ result")
                if isinstance(other, self.DictList):
                    self.coherent(other, oth_list, "right operand of + (must be unaffected)")
            elif k == "binsub":
                new_ref = before
                other, oth_list = operand()
                r = dl - other
                exp = [o for o in before if all(o is not x for x in oth_list)]
                self.coherent(r, exp, "- result")
                if isinstance(other, self.DictList):
                    self.coherent(other, oth_list, "right operand of - (must be unaffected)")
            elif k == "query":
                new_ref = before
                if op.get("attr"):
                    r = dl.query(op["re"], op["attr"])
                    exp = [o for o in before if re.compile(op["re"]).findall(getattr(o, op["attr"])) != []]
                elif op.get("fn"):
                    fn = {"lt_c": (lambda o: o.id < "c"), "true": (lambda o: True), "false": (lambda o: False)}[op["fn"]]
                    r = dl.query(fn)
                    exp = [o for o in before if fn(o)]
                else:
                    r = dl.query(op["re"])
                    exp = [o for o in before if re.compile(op["re"]).findall(o.id) != []]
                self.coherent(r, exp, "query result")
            elif k == "ctor":
                new_ref = before
                r = self.DictList(dl) if op.get("from_dl", True) else self.DictList(list(before))
                self.coherent(r, before, "constructor result")
                r2 = self.DictList(objs()) if op.get("xs") else None
                if r2 is not None:
                    self.coherent(r2, objs(), "constructor result")
            elif k == "replace_on_id":
                from cobra.core.object import Object

                tid = op["id"]
                n = Object(tid, name="repl")
                pos = [i for i, r in enumerate(before) if r.id == tid]
                if pos:
                    new_ref = list(before)
                    new_ref[pos[0]] = n
                else:
                    new_ref = "raises"
                dl._replace_on_id(n)
                if pos:
                    U[U.index(before[pos[0]])] = n
            elif k == "rename":
                o = U[op["x"]]
                lists = [before] + ([self.shadow[1]] if self.shadow else [])
                if any(any(r is o for r in L) and any(r.id == op["id"] for r in L if r is not o) for L in lists):
                    new_ref = before  # would create a duplicate: user error, not performed
                else:
                    o.id = op["id"]
                    dl._generate_index()
                    if self.shadow is not None:
                        self.shadow[0]._generate_index()
                    new_ref = before
            elif k == "get_by_any":
                new_ref = before
                items = [U[j] if t == "o" else j for t, j in op["items"]]
                try:
                    exp = []
                    for t, j in op["items"]:
                        if t == "i":
                            exp.append(before[j])
                        elif t == "s":
                            exp.append([r for r in before if r.id == j][0])
                        else:
                            if not any(r.id == U[j].id for r in before):
                                raise IndexError
                            # an object is looked up by its identifier: the answer is the list's own element
                            exp.append([r for r in before if r.id == U[j].id][0])
                except IndexError:
                    exp = None
                got = dl.get_by_any(items)
                if exp is not None and (len(got) != len(exp) or any(a is not b for a, b in zip(got, exp))):
                    raise Violation("content", {"what": "get_by_any"})
            else:
                raise ValueError(f"unknown op {k}")
        except Violation:
            raise
        except Exception as e:  # the operation raised: list must be unchanged
            raised = e
        dl = self.dl
        if raised is not None:
            stats[f"op_failed:{k}"] += 1
            stats["probe:failing_op_checked"] += 1
            self.coherent(dl, before, f"after failing {k} ({type(raised).__name__})")
        else:
            if new_ref == "raises":
                new_ref = before  # plain list would have raised: nothing may have changed
            if isinstance(new_ref, list) and len({o.id for o in new_ref}) != len(new_ref):
                raise Violation("unique", {"what": f"{k} accepted a duplicate id", "ids": [o.id for o in new_ref]})
            self.ref = new_ref
            if len(new_ref) != len(before) or any(a is not b for a, b in zip(new_ref, before)):
                self.changed = True
            self.coherent(dl, self.ref, f"after {k}")
        if self.shadow is not None:
            self.coherent(self.shadow[0], self.shadow[1], "earlier copy (must be unaffected)")


# --------------------------------------------------------------------------------------


def _gen_op(rng, w, kinds, weights):
    k = rng.choices(kinds, weights)[0]
    n = len(w.ref)
    nu = len(w.universe)

    def idx():
        return rng.randint(-n - 2, n + 2)

    def x():
        return rng.randrange(nu)

    def xs(maxn=3):
        return [x() for _ in range(rng.randint(0, maxn))]

    def sl():
        d = {"a": rng.choice([None, idx()]), "b": rng.choice([None, idx()])}
        if rng.random() < 0.2:
            d["s"] = rng.choice([1, 2, -1, None])
        return d

    op = {"op": k}
    if k in ("append", "add"):
        op["x"] = x()
    elif k == "insert":
        op.update(i=idx(), x=x())
    elif k in ("extend", "iadd", "union", "binadd", "binsub"):
        op["xs"] = xs()
        if k in ("extend", "iadd", "binadd", "union") and rng.random() < 0.12:
            # the iterable itself fails part-way, or one of its entries is not an identified object: nothing may stick
            op["as"] = rng.choice(["raising_iter", "bad_entry"])
            op["after"] = rng.randint(0, 3)
        elif k != "union" and rng.random() < 0.4:
            # the operand as another DictList, as a one-shot iterator, as this very list or as a slice of it
            op["as"] = rng.choice(["dictlist", "dictlist", "self", "selfslice", "iter"] if k in ("binadd", "binsub") else ["dictlist", "iter", "self", "selfslice"])
            if op["as"] == "selfslice":
                op.update(a=rng.choice([None, idx()]), b=rng.choice([None, idx()]))
    elif k == "isub":
        op["xs"] = [rng.choice([x(), rng.choice(ALPHABET)]) for _ in range(rng.randint(0, 2))]
        if n and rng.random() < 0.6:  # bias towards present elements
            op["xs"] = [w.universe.index(rng.choice(w.ref))]
    elif k == "setitem":
        op.update(i=idx(), x=x())
        if n and rng.random() < 0.3:  # same id as the element replaced
            i = rng.randrange(-n, n)
            same = [j for j, o in enumerate(w.universe) if o.id == w.ref[i].id]
            op.update(i=i, x=rng.choice(same))
    elif k == "setslice":
        op.update(sl())
        op["xs"] = xs()
    elif k == "delitem":
        op["i"] = idx()
    elif k in ("delslice", "getslice"):
        op.update(sl())
    elif k == "popi":
        op["i"] = idx()
    elif k == "remove":
        op["x"] = w.universe.index(rng.choice(w.ref)) if n and rng.random() < 0.7 else x()
    elif k == "remove_id":
        op["id"] = rng.choice(ALPHABET)
    elif k == "imul":
        op["n"] = rng.choice([0, 1, 2, -1, 3])
    elif k == "sort":
        op.update(key=rng.choice(["id", "id", "rev", "name"]), reverse=rng.random() < 0.5)
        if rng.random() < 0.15:
            op.update(key="fails", bad=x())
    elif k == "pickle":
        op["proto"] = rng.choice([0, 2, 4, 5])
    elif k == "query":
        r = rng.random()
        if r < 0.4:
            op["re"] = rng.choice(["^a", "b|c", ".", "z", "^[d-f]$"])
        elif r < 0.7:
            op.update(re=rng.choice(["n1", "^n", "3$"]), attr="name")
        else:
            op["fn"] = rng.choice(["lt_c", "true", "false"])
    elif k == "ctor":
        op["from_dl"] = rng.random() < 0.5
    elif k == "replace_on_id":
        op["id"] = rng.choice(ALPHABET)
    elif k == "rename":
        op.update(x=x(), id=rng.choice(ALPHABET + EXTRA_IDS))
    elif k == "get_by_any":
        items = []
        for _ in range(rng.randint(1, 3)):
            t = rng.choice("iso")
            items.append([t, rng.randrange(n) if t == "i" and n else (rng.choice(ALPHABET) if t != "o" else x())])
        items = [[t, j] for t, j in items if not (t == "i" and not n)]
        op["items"] = [it for it in items if not (it[0] == "i" and isinstance(it[1], str))]
    return op


def _state_digest(w):
    return digest([o.id for o in w.ref])


def _execute(trace, stats, gen=None, verbose=False):
    """Execute a trace; if `gen` is given, ops are generated (and recorded) step by step."""
    res = RunResult()
    res.stats = stats
    res.trace = trace
    w = World(trace["cfg"])
    step_digests = []
    try:
        w.coherent(w.dl, w.ref, "initial")
        n = trace["cfg"]["steps"] if gen else len(trace["ops"])
        for s in range(n):
            if gen:
                op = gen(w)
                trace["ops"].append(op)
            else:
                op = trace["ops"][s]
            try:
                w.apply(op, stats)
            except Violation as v:
                v.step = s
                v.culprit = op
                raise
            sd = _state_digest(w)
            step_digests.append(sd)
            res.states.add(sd)
            res.steps += 1
            if verbose:
                print(f"  step {s}: {op} -> {[o.id for o in w.ref]}")
    except Violation as v:
        res.violation = v.as_dict()
    res.nontrivial = w.changed
    res.trace_digest = digest([trace["ops"], step_digests])
    return res


def generate_and_run(run_seed, prop, tier, run_cfg):
    S = Streams(run_seed)
    sw = S("swarm")
    nu = sw.randint(4, 12)
    universe = [sw.choice(ALPHABET) for _ in range(nu)]
    init = [k for k in range(nu) if sw.random() < 0.4]
    kinds = [k for k in OP_KINDS if sw.random() < 0.6] or ["append", "insert"]
    for q in run_cfg.get("quarantine", []):
        kinds = [k for k in kinds if k not in QUARANTINE.get(q, ())] or ["append"]
    weights = [sw.choice([1, 1, 2, 4]) for _ in kinds]
    cfg = {"universe": universe, "init": init, "steps": sw.randint(3, run_cfg.get("max_steps", 30))}
    trace = {"engine": "dlist", "cfg": cfg, "ops": []}
    rng = S("ops")
    res = RunResult()
    res = _execute(trace, res.stats, gen=lambda w: _gen_op(rng, w, kinds, weights))
    for op in trace["ops"]:
        for key in ("i", "a", "b"):
            v = op.get(key)
            if isinstance(v, int) and v < 0:
                res.stats["probe:negative_index"] += 1
                break
    return res


def replay(trace, prop, run_cfg):
    res = RunResult()
    trace = {"engine": "dlist", "cfg": trace["cfg"], "ops": list(trace["ops"])}
    return _execute(trace, res.stats, verbose=run_cfg.get("verbose", False))


def simplify(trace):
    """Candidates: shrink xs lists, move indices towards 0, drop initial elements."""
    for s, op in enumerate(trace["ops"]):
        if isinstance(op.get("xs"), list) and len(op["xs"]) > 1:
            for j in range(len(op["xs"])):
                t = copy.deepcopy(trace)
                del t["ops"][s]["xs"][j]
                yield t
        for key in ("i", "a", "b"):
            v = op.get(key)
            if isinstance(v, int) and v not in (0, -1):
                t = copy.deepcopy(trace)
                t["ops"][s][key] = v - 1 if v > 0 else v + 1
                yield t
        if op.get("s") is not None:
            t = copy.deepcopy(trace)
            t["ops"][s]["s"] = None
            yield t
    init = trace["cfg"].get("init", [])
    for j in range(len(init)):
        t = copy.deepcopy(trace)
        del t["cfg"]["init"][j]
        yield t


def sample_of(trace):
    return {"universe": trace["cfg"]["universe"], "init": trace["cfg"]["init"], "ops": trace["ops"][:12]}


QUARANTINE = {}


def match_finding(trigger, trace, violation):
    c = violation.get("culprit") or {}
    return c.get("op") in QUARANTINE.get(trigger, ())
