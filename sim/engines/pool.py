"""POOL engine: analyses under a simulated process pool, seeded schedules and injected solver
verdicts (C05, C06, C13, C14).

trace = {"engine": "pool", "cfg": {"model": spec, "swarm": {...}, "hash_seed": int},
         "ops": [analysis calls ...], "schedule": {label: [decisions]}}
An op = one analysis call with explicit arguments (ids in explicit order), `processes`, an optional
fault {"k": solver-call index, "verdict": ...}, and `role`: "ref" (processes=1 reference), "var"
(schedule / order / process-count variant), "single" (one item alone), "fault", "repeat".
"""
from __future__ import annotations

import contextlib
import copy
import math
import warnings

from .. import fba, gprtree, reflp, seams, simpool
from .. import snapshot as S
from ..core import RunResult, Streams, Violation, digest
from ..refmodel import reverse_id
from . import hist

SHRINK_LISTS = ("ops",)
TOL = 1e-6


def _nan(x):
    try:
        x = float(x)
    except Exception:
        return repr(x)
    if math.isnan(x):
        return "nan"
    if math.isinf(x):
        return "inf" if x > 0 else "-inf"
    return x


def _same_num(a, b, tol=TOL):
    if isinstance(a, str) or isinstance(b, str):
        return a == b
    return abs(a - b) <= tol * max(1.0, abs(a), abs(b))


# ------------------------------------------------------------------------------------------
# model generation: small networks that usually grow


def gen_network(rng, sw):
    ne = rng.randint(1, 2)
    nc = rng.randint(2, sw["max_mets"])
    ext = [f"{hist.MET_IDS[i]}_e" for i in range(ne)]
    cyt = [f"{hist.MET_IDS[i]}_c" for i in range(ne + nc)]
    mets = [{"id": m, "name": m, "formula": None, "charge": None, "compartment": "e"} for m in ext]
    mets += [{"id": m, "name": m, "formula": None, "charge": None, "compartment": "c"} for m in cyt]
    if rng.random() < sw.get("p_formulas", 0.3):
        # chemical formulas (carbon accounting of production_envelope and the summaries reads them); now and then one that
        # the formula parser cannot take apart (a polymer), which makes those analyses raise part-way
        for m in mets:
            m["formula"] = rng.choice(["C6H12O6", "CO2", "H2O", "C3H4O3", None])
        if rng.random() < 0.4:
            rng.choice(mets[: len(ext)])["formula"] = "(C6H10O5)n"
    rxns = []
    genes = hist.GENES[: sw["n_genes"]]

    def rule():
        return gprtree.random_tree(rng, genes, 2) if rng.random() < sw["p_rule"] else None

    for i, m in enumerate(ext):
        lb = rng.choice([-10, -10, -5, -1000, -1, 0])
        rxns.append({"id": f"EX_{m}", "name": "", "subsystem": "", "lb": lb, "ub": rng.choice([1000, 1000, 0, 10]),
                     "mets": [[m, -1]], "tree": None})
        rxns.append({"id": f"T{i}", "name": "", "subsystem": "", "lb": rng.choice([0, -1000]), "ub": 1000,
                     "mets": [[m, -1], [cyt[i], 1]], "tree": rule()})
    n_int = rng.randint(1, sw["max_rxns"])
    for i in range(n_int):
        a, b = rng.sample(cyt, 2)
        ms = [[a, -rng.choice([1, 1, 2])], [b, rng.choice([1, 1, 2, 0.5])]]
        if rng.random() < 0.3 and len(cyt) > 2:
            c = rng.choice([x for x in cyt if x not in (a, b)])
            ms.append([c, rng.choice([1, -1])])
        lb, ub = rng.choice([(0, 1000), (-1000, 1000), (0, 10), (-10, 10), (0, 5), (1, 10), (-5, 0)])
        if rng.random() < sw.get("p_infinite", 0.1):
            ub = math.inf
        rxns.append({"id": f"R{i}", "name": "", "subsystem": "", "lb": lb, "ub": ub, "mets": sorted(ms), "tree": rule()})
    # outlets and objective
    bio = rng.sample(cyt, min(len(cyt), rng.randint(1, 2)))
    rxns.append({"id": "BIO", "name": "", "subsystem": "", "lb": 0, "ub": rng.choice([1000, 1000, 100]),
                 "mets": sorted([m, -rng.choice([1, 1, 2])] for m in bio), "tree": rule()})
    for m in cyt:
        if rng.random() < 0.35:
            rxns.append({"id": f"DM_{m}", "name": "", "subsystem": "", "lb": 0, "ub": rng.choice([1000, 10]),
                         "mets": [[m, -1]], "tree": None})
    obj = {"BIO": 1}
    if rng.random() < 0.15:
        obj = {rng.choice([r["id"] for r in rxns]): 1}
    if rng.random() < sw.get("p_weighted_objective", 0.25):
        # weights other than 1 and objectives with two terms
        obj = {k: rng.choice([2, 3, 0.5, -1, 10]) for k in obj}  # 10: an optimum well above the total flux of any solution
        if rng.random() < 0.4:
            obj[rng.choice([r["id"] for r in rxns])] = rng.choice([1, 2, -1])
    if rng.random() < sw.get("p_empty_objective", 0.0):
        obj = {}
    direction = "max" if rng.random() < 0.85 else "min"
    if rng.random() < sw.get("p_wrong_sign_optimum", 0.08):
        # an optimum below zero when maximising / above zero when minimising: a cost on a flux that is forced to run
        r = rng.choice([x for x in rxns if x["id"] != "BIO"] or rxns)
        if not (r["lb"] > 0):
            r["lb"], r["ub"] = rng.choice([(1, 10), (0.5, 1000), (2, 5)])
        direction = rng.choice(["max", "min"])
        obj = {r["id"]: -1 if direction == "max" else 1}
    return {"id": "net", "name": None, "comps": {"c": "cytosol", "e": "extracellular"}, "mets": mets, "rxns": rxns,
            "objective": obj, "direction": direction, "groups": [], "solver": sw.get("solver", "glpk")}


# ------------------------------------------------------------------------------------------
# exact oracles (split LP: forward/reverse columns, so that sum |v| is linear)


def split_lp(ref, knocked=()):
    rids = sorted(ref.rxns)
    idx = {}
    for r in rids:
        idx[r] = (len(idx), len(idx) + 1)
        idx[r + "#"] = None
    n = 2 * len(rids)
    lp = reflp.LP(n)
    col = {}
    for j, r in enumerate(rids):
        x = ref.rxns[r]
        lo, hi = (0, 0) if r in knocked else (x["lb"], x["ub"])
        f, v = 2 * j, 2 * j + 1
        col[r] = (f, v)
        lp.set_col(f, max(0, lo) if lo != -math.inf else 0, None if hi == math.inf else max(0, hi))
        lp.set_col(v, max(0, -hi) if hi != math.inf else 0, None if lo == -math.inf else max(0, -lo))
    for m in sorted(ref.mets):
        coefs = {}
        for r in rids:
            c = ref.rxns[r]["mets"].get(m)
            if c:
                coefs[col[r][0]] = c
                coefs[col[r][1]] = -c
        lp.add_row(coefs, 0, 0)
    return lp, col


def net(col, r, scale=1):
    return {col[r][0]: scale, col[r][1]: -scale}


def obj_expr(ref, col):
    e = {}
    for r, c in (ref.obj or {}).items():
        if r in col:
            e[col[r][0]] = e.get(col[r][0], 0) + c
            e[col[r][1]] = e.get(col[r][1], 0) - c
    return e


def exact_opt(ref, knocked=(), direction=None):
    lp, col = split_lp(ref, knocked)
    res = reflp.solve(lp, obj_expr(ref, col), direction or ref.direction)
    return res if res.certified else None


def exact_fva(ref, rids, fraction, pfba_factor=None):
    """{rid: (min, max)} as floats / 'unbounded'; None if the oracle cannot answer."""
    lp, col = split_lp(ref)
    oe = obj_expr(ref, col)
    if fraction is None:  # no objective constraint at all (blocked reactions do not depend on the objective)
        res = reflp.solve(lp, {}, "max")
        if not res.certified or res.status != "optimal":
            return None
    else:
        res = reflp.solve(lp, oe, ref.direction)
        if not res.certified or res.status != "optimal":
            return None
        bound = res.value * reflp.Fraction(fraction).limit_denominator(10 ** 6)
        lp = lp.with_row(oe, bound, None) if ref.direction == "max" else lp.with_row(oe, None, bound)
    if pfba_factor is not None:
        tot = {j: 1 for j in range(lp.ncols)}
        # the smallest total flux among the points that satisfy the objective pin above (and nothing else: an extra "objective >= 0"
        # would be a different - and for an optimum below zero infeasible - problem)
        m = reflp.solve(lp, tot, "min")
        if not m.certified or m.status != "optimal":
            return None
        lp = lp.with_row(tot, None, m.value * reflp.Fraction(pfba_factor).limit_denominator(10 ** 6))
    out = {}
    for r in rids:
        lo, hi = reflp.minmax(lp, net(col, r))
        if not (lo.certified and hi.certified):
            return None
        if lo.status == "infeasible" or hi.status == "infeasible":
            return None
        out[r] = ("unbounded" if lo.status == "unbounded" else float(lo.value),
                  "unbounded" if hi.status == "unbounded" else float(hi.value))
    return out


def exact_moma_range(ref, knocked, ref_fluxes):
    """Linear MOMA: d* = exact minimal L1 distance to the reference fluxes on the knocked-out model; returns the exact range
    (lo, hi) of the original objective over {distance <= d*}, or "infeasible", or None if the oracle cannot answer."""
    lp, col = split_lp(ref, knocked)
    rids = sorted(ref.rxns)
    n0 = lp.ncols
    big = reflp.LP(n0 + 2 * len(rids))
    for j in range(n0):
        big.set_col(j, lp.lo[j], lp.hi[j])
    for i, row in enumerate(lp.rows):
        big.add_row(dict(row), lp.row_lo[i], lp.row_hi[i])
    dist = {}
    for k, r in enumerate(rids):
        dp, dn = n0 + 2 * k, n0 + 2 * k + 1
        big.set_col(dp, 0, None)
        big.set_col(dn, 0, None)
        e = dict(net(col, r))
        e[dp] = -1
        e[dn] = 1
        f = reflp.Fraction(float(ref_fluxes.get(r, 0.0)))
        big.add_row(e, f, f)  # v - (dp - dn) = reference flux
        dist[dp] = 1
        dist[dn] = 1
    m = reflp.solve(big, dist, "min")
    if not m.certified:
        return None
    if m.status != "optimal":
        return "infeasible"
    slack = abs(m.value) * reflp.Fraction(1, 10 ** 7) + reflp.Fraction(1, 10 ** 7)
    capped = big.with_row(dist, None, m.value + slack)
    lo, hi = reflp.minmax(capped, obj_expr(ref, col))
    if not (lo.certified and hi.certified) or lo.status != "optimal" or hi.status != "optimal":
        return None
    return float(lo.value), float(hi.value)


def knocked_by_genes(ref, gids):
    absent = set(gids) | ref.nonfunctional()
    hit = set()
    for rid, x in ref.rxns.items():
        if x["rule"] is not None and set(gids) & gprtree.genes(x["rule"]) and not gprtree.evaluate(x["rule"], absent):
            hit.add(rid)
    return hit


# ------------------------------------------------------------------------------------------
# analyses: (model, args) -> normalised result {"unique": {...}, "other": {...}}


def _frame_fva(df):
    out = {}
    for i, row in df.iterrows():
        v = [_nan(row["minimum"]), _nan(row["maximum"])]
        if str(i) in out and out[str(i)] != v:
            v = ["rows of a repeated reaction differ", "rows of a repeated reaction differ"]
        out[str(i)] = v
    return out


def _frame_del(df):
    out = {}
    for _, row in df.iterrows():
        key = "|".join(sorted(row["ids"]))
        if key in out:
            out[key + "#dup"] = [_nan(row["growth"]), row["status"]]
        else:
            out[key] = [_nan(row["growth"]), row["status"]]
    return out


def _items(model, lst, ids, as_obj):
    if ids is None:
        return None
    if as_obj == "foreign":
        # objects of ANOTHER model with the same identifiers (a copy in which everything is shut): they only name the entities
        other = model.copy()
        for r in other.reactions:
            r.bounds = (0, 0)
        for g in other.genes:
            g._functional = False
        olst = other.genes if lst is model.genes else other.reactions
        return [olst.get_by_id(i) if olst.has_id(i) else i for i in ids]
    return [lst.get_by_id(i) if as_obj else i for i in ids]


def an_fva(model, a, p):
    from cobra.flux_analysis import flux_variability_analysis as f

    df = f(model, reaction_list=_items(model, model.reactions, a.get("rxns"), a.get("as_obj")),
           loopless=a.get("loopless", False), fraction_of_optimum=a.get("fraction", 1.0),
           pfba_factor=a.get("pfba_factor"), processes=p)
    res = _frame_fva(df)
    return {"unique": {} if a.get("loopless") else res, "other": res if a.get("loopless") else {}, "index": [str(i) for i in df.index]}


def an_blocked(model, a, p):
    from cobra.flux_analysis import find_blocked_reactions as f

    r = f(model, reaction_list=_items(model, model.reactions, a.get("rxns"), True), open_exchanges=a.get("open_exchanges", False),
          processes=p)
    return {"unique": {"blocked": sorted(r)}}


def an_essential_genes(model, a, p):
    from cobra.flux_analysis import find_essential_genes as f

    r = f(model, threshold=a.get("threshold"), processes=p)
    return {"unique": {"essential": sorted(g.id for g in r)}}


def an_essential_reactions(model, a, p):
    from cobra.flux_analysis import find_essential_reactions as f

    r = f(model, threshold=a.get("threshold"), processes=p)
    return {"unique": {"essential": sorted(x.id for x in r)}}


def _deletion(fn_name, entity):
    def run(model, a, p):
        import cobra.flux_analysis as fa

        fn = getattr(fa, fn_name)
        lst = model.genes if entity == "gene" else model.reactions
        kw = {"method": a.get("method", "fba"), "processes": p}
        ref_fluxes = None
        if a.get("method") == "linear moma":
            # the reference solution is given explicitly so that the oracle judges against the same reference
            from cobra.flux_analysis import pfba

            sol = pfba(model)
            kw["solution"] = sol
            ref_fluxes = {k: float(v) for k, v in sol.fluxes.items()}
        l1 = _items(model, lst, a.get("l1"), a.get("as_obj"))
        if "double" in fn_name:
            df = fn(model, l1, _items(model, lst, a.get("l2"), a.get("as_obj")), **kw)
        else:
            df = fn(model, l1, **kw)
        res = _frame_del(df)
        # the .knockout accessor must return exactly the rows asked for (single ids, lists, sets; ids or objects)
        acc = []
        keys = sorted(k for k in res if "#dup" not in k)
        for q in a.get("accessor", []):
            if q["i"] >= len(keys):
                continue
            ids = keys[q["i"]].split("|") if keys[q["i"]] else []
            if not ids:
                continue
            items = [lst.get_by_id(i) for i in ids] if q.get("obj") and all(lst.has_id(i) for i in ids) else list(ids)
            arg = items[0] if (len(items) == 1 and q.get("bare")) else [set(items)]
            try:
                got = df.knockout[arg]
                acc.append([keys[q["i"]], sorted("|".join(sorted(x)) for x in got["ids"])])
            except Exception as e:
                acc.append([keys[q["i"]], "raised " + type(e).__name__])
        if a.get("method", "fba") == "fba":
            return {"unique": res, "accessor": acc}
        return {"unique": {k: v[1] for k, v in res.items()}, "other": res, "ref_fluxes": ref_fluxes}

    return run


def _sol(sol, unique_value=True):
    out = {"status": sol.status}
    if unique_value:
        out["objective_value"] = _nan(sol.objective_value)
    return out


def an_optimize(model, a, p):
    s = model.optimize(objective_sense=a.get("sense"), raise_error=a.get("raise_error", False))
    return {"unique": _sol(s)}


def an_pfba(model, a, p):
    from cobra.flux_analysis import pfba

    kw = {}
    if a.get("objective") and model.reactions.has_id(a["objective"]):
        # an objective for this call only, as a dictionary or as a ready-made solver objective ("dict or cobra.Model.objective")
        r = model.reactions.get_by_id(a["objective"])
        kw["objective"] = {r: 1} if a.get("objective_as") == "dict" else model.problem.Objective(r.flux_expression, direction="max")
    s = pfba(model, fraction_of_optimum=a.get("fraction", 1.0), **kw)
    return {"unique": _sol(s)}


def an_moma(model, a, p):
    from cobra.flux_analysis import moma

    s = moma(model, linear=True)
    return {"unique": _sol(s)}


def an_room(model, a, p):
    from cobra.flux_analysis import room

    s = room(model, linear=a.get("linear", True))
    return {"unique": _sol(s)}


def an_geometric(model, a, p):
    from cobra.flux_analysis import geometric_fba

    s = geometric_fba(model, processes=p)
    return {"unique": {"status": s.status}}


def an_loopless_solution(model, a, p):
    from cobra.flux_analysis import loopless_solution

    s = loopless_solution(model)
    return {"unique": {"status": s.status, "objective_value": _nan(s.objective_value)}}


def an_envelope(model, a, p):
    from cobra.flux_analysis import production_envelope

    kw = {"objective": a["objective"]} if a.get("objective") else {}
    df = production_envelope(model, a["rxns"], points=a.get("points", 4), **kw)
    cols = [c for c in df.columns if c in ("flux_minimum", "flux_maximum")]
    return {"unique": {f"{i}:{c}": _nan(df[c].iloc[i]) for i in range(len(df)) for c in cols}}


def an_assess(model, a, p):
    from cobra.flux_analysis import assess

    r = assess(model, model.reactions.get_by_id(a["rxn"]), flux_coefficient_cutoff=a.get("cutoff", 0.001))
    return {"unique": {"ok": r is True}}


def an_minimal_medium(model, a, p):
    from cobra.medium import minimal_medium

    r = minimal_medium(model, min_objective_value=a.get("min_obj", 0.1), exports=a.get("exports", False),
                       minimize_components=a.get("components", False), open_exchanges=a.get("open_exchanges", False))
    if r is None:
        return {"unique": {"none": True}}
    if a.get("components"):
        return {"unique": {"n": int(len(r))}}
    if a.get("exports"):
        return {"unique": {"n_rows": None}}
    return {"unique": {"total": _nan(float(r.sum()))}}


def an_fastcc(model, a, p):
    from cobra.flux_analysis import fastcc

    m = fastcc(model)
    return {"unique": {}, "other": {"reactions": sorted(r.id for r in m.reactions)}}


def an_gapfill(model, a, p):
    from cobra.flux_analysis import gapfill

    uni = hist.build_model(a["universal"])
    kw = {}
    if a.get("penalties"):
        kw["penalties"] = dict(a["penalties"])
    r = gapfill(model, uni, demand_reactions=a.get("demand", False), **kw)
    return {"unique": {}, "other": {"sets": [sorted(x.id for x in s) for s in r]}}


def an_summary(model, a, p):
    s = model.summary(fva=a.get("fva"))
    s.to_string()
    out = {}
    if a.get("met") and model.metabolites.has_id(a["met"]):
        model.metabolites.get_by_id(a["met"]).summary().to_string()
    if a.get("rxn") and model.reactions.has_id(a["rxn"]):
        model.reactions.get_by_id(a["rxn"]).summary().to_string()
    return {"unique": out}


def an_sample(model, a, p):
    from cobra.sampling import sample

    if a.get("again") and a.get("method", "optgp") == "optgp":
        # one sampler object asked twice: it carries its centre and sample count from the first batch into the second
        import pandas as pd
        from cobra.sampling import OptGPSampler

        s = OptGPSampler(model, processes=p, thinning=a.get("thinning", 2), seed=a.get("seed", 42))
        df = pd.concat([s.sample(a.get("n", 4)), s.sample(a["again"])], ignore_index=True)
    else:
        df = sample(model, a.get("n", 4), method=a.get("method", "optgp"), thinning=a.get("thinning", 2), processes=p,
                    seed=a.get("seed", 42))
    return {"unique": {"shape": list(df.shape), "columns": [str(c) for c in df.columns],
                       "values": [[_nan(x) for x in row] for row in df.values.tolist()]}}


ANALYSES = {
    "fva": an_fva, "blocked": an_blocked, "essential_genes": an_essential_genes,
    "essential_reactions": an_essential_reactions,
    "single_gene_deletion": _deletion("single_gene_deletion", "gene"),
    "double_gene_deletion": _deletion("double_gene_deletion", "gene"),
    "single_reaction_deletion": _deletion("single_reaction_deletion", "reaction"),
    "double_reaction_deletion": _deletion("double_reaction_deletion", "reaction"),
    "optimize": an_optimize, "pfba": an_pfba, "moma": an_moma, "room": an_room, "geometric_fba": an_geometric,
    "loopless_solution": an_loopless_solution, "production_envelope": an_envelope, "assess": an_assess,
    "minimal_medium": an_minimal_medium, "fastcc": an_fastcc, "gapfill": an_gapfill, "summary": an_summary,
    "sample": an_sample,
}
PARALLEL = {"fva", "blocked", "essential_genes", "essential_reactions", "single_gene_deletion", "double_gene_deletion",
            "single_reaction_deletion", "double_reaction_deletion", "geometric_fba", "sample"}
ITEM_LISTS = {"fva": ("rxns",), "blocked": ("rxns",), "single_gene_deletion": ("l1",), "double_gene_deletion": ("l1", "l2"),
              "single_reaction_deletion": ("l1",), "double_reaction_deletion": ("l1", "l2")}


def canon_key(op):
    """Identity of a call up to what must not matter: processes, item order, object/id form."""
    a = dict(op.get("args", {}))
    a.pop("as_obj", None)
    a.pop("accessor", None)
    for k in ITEM_LISTS.get(op["op"], ()):
        if a.get(k) is not None:
            a[k] = sorted(a[k])
    if op["op"] == "sample":
        a["processes"] = op.get("processes")  # reproducible for a fixed seed *and process count*
        return digest([op["op"], a, "values"])
    return digest([op["op"], a])


# ------------------------------------------------------------------------------------------
# the simulated world


class World:
    def __init__(self, trace, prop, stats, run_cfg, ctx):
        self.prop, self.stats, self.run_cfg, self.ctx = prop, stats, run_cfg, ctx
        self.oracles = ORACLES[prop]
        spec = trace["cfg"]["model"]
        self.model = hist.build_model(spec)
        self.ref = hist.ref_from_spec(spec)
        for c in spec.get("user_cons", []):  # C13 only: analyses must respect and restore user-added constraints too
            expr = 0
            for rid, k in c["expr"]:
                expr = expr + k * self.model.reactions.get_by_id(rid).flux_expression
            self.model.add_cons_vars([self.model.problem.Constraint(expr, lb=c["lb"], ub=c["ub"], name=c["name"])])
            self.ref.apply({"op": "add_cons", **c}, None)
            stats["probe:model_with_user_constraint"] += 1
        self.refs = {}  # canon_key -> unique results of the first fault-free call
        self.full = {}  # canon_key -> merged per-item results (for single-item / subset comparison)
        self.user_ctx_snap = None
        self.K = {}
        self.changed = False
        self.exact_cache = {}

    # ---- one analysis call ----------------------------------------------------------------
    def step(self, op):
        kind = op["op"]
        ctx = self.ctx
        if kind == "user_enter":
            if self.model._contexts:
                return
            self.pre_user_ctx_snap = S.snap(self.model)
            self.ref_before_user_ctx = self.ref.clone()
            self.model.__enter__()
            # the user context already holds undo entries
            rid = op.get("r")
            if rid and self.model.reactions.has_id(rid):
                r = self.model.reactions.get_by_id(rid)
                r.bounds = (r.lower_bound, min(r.upper_bound, op.get("ub", 500)))
                self.ref.rxns[rid]["ub"] = r.upper_bound
            self.user_ctx_snap = S.snap(self.model)
            self.stats["probe:user_context_open"] += 1
            return
        if kind == "age":
            rid = op.get("r")
            if op.get("plain"):
                self.model.slim_optimize()
            elif rid and self.model.reactions.has_id(rid):
                with self.model:
                    self.model.objective = rid
                    self.model.objective_direction = op.get("dir", "max")
                    self.model.slim_optimize()
                self.stats["probe:aged_parent"] += 1
            return
        if kind == "pre_fix_objective":
            from cobra.util.solver import fix_objective_as_constraint

            # a fraction below 1 only loosens the pin when the optimum has the sign of the direction (the stated domain of
            # fraction_of_optimum); otherwise the pinned model is infeasible and "the same result twice" is not defined
            base = fba.solve_ref(self.ref)
            ok = base is not None and base[0].status == "optimal" and (
                op.get("fraction", 0.9) == 1.0 or (self.ref.direction == "max" and base[0].value >= 0)
                or (self.ref.direction == "min" and base[0].value <= 0))
            if not ok:
                self.stats["withheld:pin_outside_fraction_domain"] += 1
                return
            try:
                fix_objective_as_constraint(self.model, fraction=op.get("fraction", 0.9))
                self.stats["probe:preexisting_fixed_objective_constraint"] += 1
            except Exception:
                pass
            return
        if kind == "bg_knockout":
            gid = op.get("g")
            if gid and self.model.genes.has_id(gid):
                # a permanent background knock-out made before any analysis: part of the model the analyses must leave alone
                if op.get("flag_only"):
                    # only the flag is cleared (gene.functional = False): the gene's reactions keep their bounds until somebody knocks
                    # the gene out - which a deletion analysis asked for this gene does
                    self.model.genes.get_by_id(gid).functional = False
                    self.ref.genes[gid]["functional"] = False
                    self.stats["probe:background_gene_flag_cleared_reactions_open"] += 1
                else:
                    self.model.genes.get_by_id(gid).knock_out()
                    self.ref._knock_gene(gid)
                self.exact_cache.clear()
                self.refs.clear()
                self.stats["probe:background_knockout"] += 1
            return
        if kind == "edit_genes":
            gid = op.get("g")
            if gid and gid in self.ref.genes and self.model.genes.has_id(gid):
                # a gene is taken out of the rules between two analysis calls (rules are rewritten in place): later calls see the new rules
                import types

                from cobra.manipulation import remove_genes

                remove_genes(self.model, [gid], remove_reactions=False)
                env = types.SimpleNamespace()
                self.ref.apply({"op": "remove_genes", "genes": [gid], "remove_reactions": False}, env)
                for rid in getattr(env, "resync_rules", ()):
                    if rid in self.ref.rxns and self.model.reactions.has_id(rid):
                        try:
                            self.ref.rxns[rid]["rule"] = gprtree.parse(self.model.reactions.get_by_id(rid).gene_reaction_rule)
                        except ValueError:
                            pass
                self.exact_cache.clear()
                self.refs.clear()
                if self.user_ctx_snap is not None:
                    self.user_ctx_snap = S.snap(self.model)
                self.stats["probe:gene_removed_from_rules_between_calls"] += 1
            return
        if kind == "edit":
            rid = op.get("r")
            if rid and self.model.reactions.has_id(rid):
                self.model.reactions.get_by_id(rid).bounds = (op["lb"], op["ub"])
                self.ref.rxns[rid]["lb"], self.ref.rxns[rid]["ub"] = op["lb"], op["ub"]
                self.exact_cache.clear()
                self.refs.clear()
                if self.user_ctx_snap is not None:
                    self.user_ctx_snap = S.snap(self.model)
                self.stats["probe:model_edited_between_calls"] += 1
            return
        if kind == "set_config_processes":
            from cobra.core.configuration import Configuration

            Configuration().processes = op["n"]
            return
        if kind == "platform":
            import cobra.util.process_pool as pp

            pp.system = (lambda: "Windows") if op["name"] == "Windows" else (lambda: "Linux")
            if op["name"] == "Windows":
                self.stats["probe:windows_init_file_branch"] += 1
            return
        fn = ANALYSES[kind]
        args = op.get("args", {})
        # H-01 family: big-M formulations (ROOM, gapfill, component-minimal medium) put the reaction bounds into the
        # constraint matrix; with an infinite bound GLPK aborts the whole process (invalid scale factor), which nothing
        # can observe afterwards -> never executed on models with infinite bounds
        bigm = kind in ("room", "gapfill") or "room" in str(args.get("method", "")) or (kind == "minimal_medium" and args.get("components"))
        if bigm and any(math.isinf(x["lb"]) or math.isinf(x["ub"]) for x in self.ref.rxns.values()):
            self.stats["withheld:bigM_with_infinite_bounds"] += 1
            return
        p = op.get("processes")
        before = S.snap(self.model)
        g_before = global_state() if "unchanged" in self.oracles else None
        ctx.solver_calls = 0
        ctx.call_log = []
        ctx.fault = op.get("fault")
        ctx.fault_fired = 0
        fired_before = ctx.fault_fired
        n_inter = len(ctx.interleavings)
        raised, result = None, None
        self.stats[f"op:{kind}"] += 1
        try:
            with warnings.catch_warnings(), contextlib.redirect_stdout(hist._DEVNULL):
                warnings.simplefilter("ignore")
                result = fn(self.model, args, p)
        except Exception as e:
            raised = e
            self.stats[f"op_failed:{kind}"] += 1
            self.stats[f"raised:{type(e).__name__}"] += 1
        finally:
            ctx.fault = None
        K = ctx.solver_calls
        faulted = op.get("fault") is not None and ctx.fault_fired > 0
        if op.get("fault") is not None and not faulted:
            self.stats["fault_not_reached"] += 1
        if faulted:
            self.stats["faulted_calls"] += 1
        else:
            self.stats["fault_free_calls"] += 1
        self.K[canon_key(op)] = max(K, self.K.get(canon_key(op), 0))
        op["_K"] = K
        after = S.snap(self.model)
        # ---- C13: unchanged -----------------------------------------------------------------
        if "unchanged" in self.oracles:
            d = S.diff(before, after)
            if d:
                raise Violation("unchanged", {"what": f"{kind} left the model changed" + (" (after an injected solver verdict)" if faulted else "")
                                              + (f" (it raised {type(raised).__name__})" if raised else ""),
                                              "diff(before,after)": d[:8], "fault": op.get("fault")}, culprit=_pub(op))
            g_after = global_state()
            if g_after != g_before:
                ch = sorted(k for k in set(g_before) | set(g_after) if g_before.get(k) != g_after.get(k))
                raise Violation("unchanged", {"what": f"{kind} modified process-global state of the library (a default that later calls read)",
                                              "changed": ch[:5], "before": {k: (g_before.get(k) or "")[:200] for k in ch[:3]},
                                              "after": {k: (g_after.get(k) or "")[:200] for k in ch[:3]}}, culprit=_pub(op))
            self.stats["probe:unchanged_checked"] += 1
        elif S.diff(before, after, limit=1):
            # restoration is C13's business.  The value oracles of this property keep judging against the reference as it stands
            # (what a leaked change does to later results *is* their business); only an unreadable state ends the run
            self.stats["model_changed_by_analysis"] += 1
        if raised is not None and not faulted and isinstance(raised, (AssertionError, RuntimeError)) and "SimPool" in str(raised):
            raise raised
        key = canon_key(op)
        uniq = None if result is None else result.get("unique")
        # ---- exact oracles (fault-free only) -------------------------------------------------
        if not faulted:
            self._exact(op, result, raised)
        elif result is not None and kind.endswith("_deletion") and "deletion_exact" in self.oracles and args.get("method", "fba") == "fba":
            # narrow relaxation under faults: a row that claims `optimal` must still carry the right growth
            self._exact_deletion(op, result, only_optimal=True)
        elif result is not None and kind == "fva" and "fva_exact" in self.oracles and not args.get("loopless"):
            # fault containment: one failed solve may spoil the one item it served, never the items solved after it
            self._exact_fva(op, result, None, allow_bad=1)
            self.stats["probe:fault_containment_checked"] += 1
        # ---- C13 repeatable / C14 schedule independence --------------------------------------
        if not faulted and ("repeatable" in self.oracles or "schedule_independent" in self.oracles):
            if raised is None and kind.startswith("essential_") and isinstance(uniq, dict) and "essential" in uniq:
                sets = self._essential_sets(op)
                if sets is None:
                    self.stats["oracle_skip:essential_ties_unknown"] += 1
                    uniq = None
                else:
                    uniq = dict(uniq, essential=sorted(set(uniq["essential"]) - sets[1]))
            sig = ("raised", type(raised).__name__) if raised is not None else ("ok", uniq)
            role = op.get("role", "ref")
            if key not in self.refs:
                self.refs[key] = (sig, _pub(op))
            else:
                ref_sig, ref_op = self.refs[key]
                bad = _compare_sig(ref_sig, sig)
                if bad:
                    oracle = "schedule_independent" if (op.get("processes") != ref_op.get("processes") or role == "var") else "repeatable"
                    if oracle in self.oracles or ("repeatable" in self.oracles and oracle == "schedule_independent"):
                        if oracle not in self.oracles:
                            oracle = "repeatable"
                        raise Violation(oracle, {"what": f"{kind}: same call, different uniquely defined results",
                                                 "first_call": ref_op, "difference": bad[:6]}, culprit=_pub(op))
                self.stats["probe:compared_with_reference"] += 1
            if role == "single" and raised is None and "schedule_independent" in self.oracles:
                self._single_item(op, uniq)
        if len(ctx.interleavings) > n_inter:
            self.stats["probe:call_used_pool"] += 1
        if result is not None:
            self.changed = True
        return after

    def _single_item(self, op, uniq):
        parent = op.get("parent_key")
        ref = self.refs.get(parent)
        if not ref or ref[0][0] != "ok" or not isinstance(uniq, dict):
            return
        full = ref[0][1]
        bad = []
        for k, v in uniq.items():
            if k in full and _cmp(full[k], v):
                bad.append(f"{k}: alone {v} != in the full call {full[k]}")
        if bad:
            raise Violation("single_item", {"what": f"{op['op']}: result for an item asked alone differs from the full call",
                                            "difference": bad[:6]}, culprit=_pub(op))
        self.stats["probe:single_item_checked"] += 1

    # ---- exact oracles ----------------------------------------------------------------------
    def _exact(self, op, result, raised):
        kind, a = op["op"], op.get("args", {})
        if kind == "fva" and "fva_exact" in self.oracles:
            self._exact_fva(op, result, raised)
        elif kind.endswith("_deletion") and "deletion_exact" in self.oracles and a.get("method", "fba") == "fba" and result is not None:
            self._exact_deletion(op, result)
        elif kind.endswith("_deletion") and "deletion_exact" in self.oracles and a.get("method") == "linear moma" and result is not None:
            self._exact_moma(op, result)
        elif kind in ("essential_genes", "essential_reactions") and "deletion_exact" in self.oracles and result is not None:
            self._exact_essential(op, result)
        elif kind == "blocked" and "fva_exact" in self.oracles and result is not None:
            self._exact_blocked(op, result)

    def _exact_fva(self, op, result, raised, allow_bad=0):
        a = op.get("args", {})
        rids = a.get("rxns") or [r.id for r in self.model.reactions]
        ck = ("fva", a.get("fraction", 1.0), a.get("pfba_factor"))
        if ck not in self.exact_cache:
            self.exact_cache[ck] = exact_fva(self.ref, sorted(self.ref.rxns), a.get("fraction", 1.0), a.get("pfba_factor"))
        ex = self.exact_cache[ck]
        if ex is None:
            self.stats["oracle_skip:fva"] += 1
            return
        if raised is not None:
            if any(r not in self.ref.rxns for r in rids):
                return  # a request for an id the model does not have raises legitimately
            if all(v[0] != "unbounded" and v[1] != "unbounded" for r, v in ex.items() if r in rids):
                raise Violation("fva_exact", {"what": "FVA raised although the model has an optimum and all requested ranges are finite",
                                              "exception": repr(raised)[:200]}, culprit=_pub(op))
            return
        if result["index"] != list(rids):
            raise Violation("fva_exact", {"what": "index of the frame != requested reactions in order", "got": result["index"],
                                          "want": list(rids)}, culprit=_pub(op))
        res = result["unique"] if not a.get("loopless") else result["other"]
        bad = []
        bad_rxns = set()
        for r in rids:
            lo, hi = res[r]
            elo, ehi = ex[r]
            n_before = len(bad)
            if a.get("loopless"):
                # inclusion invariants only (true loopless extremes need sign-pattern enumeration)
                if not isinstance(lo, str) and not isinstance(hi, str):
                    if lo > hi + TOL * max(1, abs(hi)):
                        bad.append(f"{r}: minimum {lo} > maximum {hi}")
                    if elo != "unbounded" and lo < elo - TOL * max(1, abs(elo)):
                        bad.append(f"{r}: loopless minimum {lo} below plain minimum {elo}")
                    if ehi != "unbounded" and hi > ehi + TOL * max(1, abs(ehi)):
                        bad.append(f"{r}: loopless maximum {hi} above plain maximum {ehi}")
                continue
            for got, want, nm in ((lo, elo, "minimum"), (hi, ehi, "maximum")):
                if want == "unbounded":
                    if not isinstance(got, str) and abs(got) < 1e9:
                        bad.append(f"{r}: {nm} {got} reported for an unbounded range")
                elif isinstance(got, str) or not _same_num(got, want):
                    bad.append(f"{r}: {nm} {got} != exact {want}")
            if len(bad) > n_before:
                bad_rxns.add(r)
        if len(bad_rxns) > allow_bad:
            what = "FVA ranges differ from the exact ranges" if not allow_bad else \
                "one injected solver verdict spoiled the ranges of more than one reaction"
            raise Violation("fva_exact" if not allow_bad else "fault_containment",
                            {"what": what, "problems": bad[:6], "processes": op.get("processes"), "fault": op.get("fault")},
                            culprit=_pub(op))
        self.stats["probe:fva_exact_checked"] += 1

    def _combos(self, op):
        a = op.get("args", {})
        kind = op["op"]
        entity = "gene" if "gene" in kind else "reaction"
        universe = [g.id for g in self.model.genes] if entity == "gene" else [r.id for r in self.model.reactions]
        l1 = a.get("l1") if a.get("l1") is not None else universe
        if "double" in kind:
            l2 = a.get("l2") if a.get("l2") is not None else l1
            combos = {frozenset((x, y)) for x in l1 for y in l2}
        else:
            combos = {frozenset((x,)) for x in l1}
        return entity, combos

    def _growth(self, entity, ids):
        ck = ("del", entity, tuple(sorted(ids)))
        if ck not in self.exact_cache:
            knocked = knocked_by_genes(self.ref, ids) if entity == "gene" else set(ids)
            self.exact_cache[ck] = exact_opt(self.ref, knocked)
        return self.exact_cache[ck]

    def _exact_deletion(self, op, result, only_optimal=False):
        entity, combos = self._combos(op)
        res = result["unique"]
        for want, got in result.get("accessor") or []:
            if got != [want]:
                raise Violation("deletion_exact", {"what": ".knockout accessor does not return exactly the row asked for", "asked": want,
                                                   "got": got}, culprit=_pub(op))
            self.stats["probe:knockout_accessor_checked"] += 1
        want_keys = {"|".join(sorted(c)) for c in combos}
        if not only_optimal and set(res) != want_keys:
            raise Violation("deletion_exact", {"what": "rows of the frame != requested unordered combinations (each exactly once)",
                                               "missing": sorted(want_keys - set(res))[:5], "extra": sorted(set(res) - want_keys)[:5]},
                            culprit=_pub(op))
        bad = []
        for key, (growth, status) in res.items():
            ids = key.replace("#dup", "").split("|") if key else []
            ex = self._growth(entity, ids)
            if ex is None:
                self.stats["oracle_skip:deletion"] += 1
                continue
            if ex.status == "optimal":
                if status == "optimal":
                    if isinstance(growth, str) or not _same_num(growth, float(ex.value)):
                        bad.append(f"{key}: growth {growth} != exact {float(ex.value)}")
                elif not only_optimal:
                    bad.append(f"{key}: status {status} although an optimum ({float(ex.value)}) exists")
            else:
                if status == "optimal":
                    bad.append(f"{key}: status optimal although the knocked-out model is {ex.status}")
                elif not only_optimal and growth != "nan":
                    bad.append(f"{key}: growth {growth} instead of NaN for a {ex.status} model")
        if bad:
            raise Violation("deletion_exact", {"what": "deletion results differ from the exact optimum of the knocked-out model",
                                               "problems": bad[:6], "processes": op.get("processes")}, culprit=_pub(op))
        self.stats["probe:deletion_exact_checked"] += 1

    def _exact_moma(self, op, result):
        entity, combos = self._combos(op)
        res = result["other"]
        want_keys = {"|".join(sorted(c)) for c in combos}
        if set(res) != want_keys:
            raise Violation("deletion_exact", {"what": "rows of the frame != requested unordered combinations (each exactly once)",
                                               "missing": sorted(want_keys - set(res))[:5], "extra": sorted(set(res) - want_keys)[:5]},
                            culprit=_pub(op))
        rf = result.get("ref_fluxes")
        if not rf or self.ref.obj is None:
            return
        bad = []
        for key, (growth, status) in list(res.items())[:6]:
            ids = key.split("|") if key else []
            knocked = knocked_by_genes(self.ref, ids) if entity == "gene" else set(ids)
            rng_ = exact_moma_range(self.ref, knocked, rf)
            if rng_ is None:
                self.stats["oracle_skip:moma"] += 1
                continue
            if rng_ == "infeasible":
                if status == "optimal":
                    bad.append(f"{key}: status optimal although the knocked-out model is infeasible")
                continue
            lo, hi = rng_
            if status == "optimal":
                if isinstance(growth, str) or growth < lo - 1e-5 * max(1, abs(lo)) or growth > hi + 1e-5 * max(1, abs(hi)):
                    bad.append(f"{key}: growth {growth} is not the original objective at a minimal-adjustment solution (exact range [{lo}, {hi}])")
            else:
                bad.append(f"{key}: status {status} although a minimal-adjustment solution exists")
        if bad:
            raise Violation("deletion_exact", {"what": "linear MOMA deletion results", "problems": bad[:6], "processes": op.get("processes")},
                            culprit=_pub(op))
        self.stats["probe:moma_attainability_checked"] += 1

    def _essential_sets(self, op):
        """(exactly essential, ties, threshold): an entity whose exact knock-out optimum sits AT the threshold is essential or
        not by the last bit of a float - it belongs to no uniquely defined set."""
        a = op.get("args", {})
        entity = "gene" if "genes" in op["op"] else "reaction"
        base = exact_opt(self.ref)
        if base is None or base.status != "optimal":
            return None
        thr = a.get("threshold")
        if thr is None:
            thr = float(base.value) * 0.01
        universe = sorted(self.ref.genes) if entity == "gene" else sorted(self.ref.rxns)
        want, tie = set(), set()
        for x in universe:
            ex = self._growth(entity, [x])
            if ex is None:
                tie.add(x)
            elif ex.status != "optimal":
                want.add(x)
            elif abs(float(ex.value) - thr) < 1e-6 * max(1.0, abs(thr)):
                tie.add(x)
            elif float(ex.value) < thr:
                want.add(x)
        return want, tie, thr

    def _exact_essential(self, op, result):
        entity = "gene" if "genes" in op["op"] else "reaction"
        sets = self._essential_sets(op)
        if sets is None:
            return
        want, tie, thr = sets
        got = set(result["unique"]["essential"])
        if (got - tie) != (want - tie):
            raise Violation("deletion_exact", {"what": f"find_essential_{entity}s differs from the exact essential set",
                                               "got": sorted(got), "want": sorted(want), "threshold": thr}, culprit=_pub(op))
        self.stats["probe:essential_exact_checked"] += 1

    def _exact_blocked(self, op, result):
        a = op.get("args", {})
        if a.get("open_exchanges"):
            return
        ck = ("fva", None, None)
        if ck not in self.exact_cache:
            self.exact_cache[ck] = exact_fva(self.ref, sorted(self.ref.rxns), None, None)
        ex = self.exact_cache[ck]
        if ex is None:
            return
        rids = a.get("rxns") or sorted(self.ref.rxns)
        want, tie = set(), set()
        for r in rids:
            lo, hi = ex[r]
            mx = max(abs(lo) if lo != "unbounded" else 1e9, abs(hi) if hi != "unbounded" else 1e9)
            if mx < 1e-10:
                want.add(r)
            elif mx < 1e-6:
                tie.add(r)
        got = set(result["unique"]["blocked"])
        if (got - tie) != (want - tie):
            raise Violation("fva_exact", {"what": "find_blocked_reactions differs from the exactly blocked set", "got": sorted(got),
                                          "want": sorted(want)}, culprit=_pub(op))
        self.stats["probe:blocked_exact_checked"] += 1

    def finish(self):
        """Close the user context opened at the beginning: it must still restore its own enter state."""
        if self.model._contexts and self.user_ctx_snap is not None and "unchanged" in self.oracles:
            now = S.snap(self.model)
            d = S.diff(self.user_ctx_snap, now)
            if d:
                raise Violation("unchanged", {"what": "state inside the user's own context changed", "diff": d[:6]})
            self.stats["probe:user_context_still_intact"] += 1
            # ... and leaving the user's block must bring back exactly the model of before the block: nothing an analysis
            # recorded in the user's history may survive
            self.model.__exit__(None, None, None)
            back = S.snap(self.model)
            d = S.diff(S.without_order(self.pre_user_ctx_snap), S.without_order(back))
            if d:
                raise Violation("unchanged", {"what": "leaving the user's own context (inside which analyses were called) does not restore "
                                                      "the model of before the block", "diff(before_block,after_block)": d[:6]})
            self.stats["probe:user_context_exit_restores"] += 1


class StopRun(Exception):
    pass


def global_state():
    """Digest of the module-level mutable containers of every loaded cobra module (process-global defaults, registries).
    An analysis that is not documented to modify anything must not modify these either: a leaked default changes what the
    *next* call on any model returns."""
    import sys

    out = {}
    for name, mod in sorted(sys.modules.items()):
        if not (name == "cobra" or name.startswith("cobra.")) or mod is None:
            continue
        for attr, val in sorted(vars(mod).items()):
            if attr.startswith("__") or not isinstance(val, (dict, list, set)):
                continue
            try:
                r = repr(sorted(val.items(), key=repr) if isinstance(val, dict) else sorted(val, key=repr) if isinstance(val, set) else val)
            except Exception:
                continue
            if len(r) > 20000 or " at 0x" in r:
                continue  # registries of objects: identity-dependent, not a default
            out[f"{name}.{attr}"] = r
    return out


def _pub(op):
    return {k: v for k, v in op.items() if not k.startswith("_")}


def _cmp(a, b):
    """True if different."""
    if isinstance(a, list) and isinstance(b, list):
        return len(a) != len(b) or any(_cmp(x, y) for x, y in zip(a, b))
    if isinstance(a, (int, float)) and isinstance(b, (int, float)) and not isinstance(a, bool):
        return not _same_num(float(a), float(b))
    return a != b


def _compare_sig(a, b):
    if a[0] != b[0]:
        return [f"first call: {a[0]} {a[1] if a[0] == 'raised' else ''}; this call: {b[0]} {b[1] if b[0] == 'raised' else ''}"]
    if a[0] == "raised":
        return [] if a[1] == b[1] else [f"raised {a[1]} vs {b[1]}"]
    ua, ub = a[1] or {}, b[1] or {}
    bad = []
    for k in sorted(set(ua) | set(ub)):
        if k not in ua or k not in ub:
            bad.append(f"{k}: present in only one result")
        elif _cmp(ua[k], ub[k]):
            bad.append(f"{k}: {ua[k]} != {ub[k]}")
    return bad


ORACLES = {
    "C13": {"unchanged", "repeatable"},
    "C14": {"schedule_independent", "fva_exact", "deletion_exact"},
    "C05": {"fva_exact"},  # incl. fault containment under one injected non-raising verdict
    "C06": {"deletion_exact"},
}

# ------------------------------------------------------------------------------------------
# generation


def make_swarm(rng, prop, run_cfg):
    return {"max_mets": rng.randint(2, 5), "max_rxns": rng.randint(1, 5), "n_genes": rng.randint(2, 5),
            "p_rule": rng.choice([0.4, 0.7, 0.95]) if prop in ("C06", "C14", "C13") else 0.3,
            "p_infinite": rng.choice([0.0, 0.1, 0.3]), "solver": rng.choice(["glpk", "glpk", "glpk", "glpk_exact"]),
            "user_ctx": rng.random() < 0.4, "aged": rng.random() < 0.5, "bg_knockout": rng.random() < 0.3, "pre_fix": rng.random() < 0.3, "p_empty_objective": 0.12 if prop == "C13" else 0.04,
            "platform": rng.choice(["Linux", "Linux", "Windows"]), "n_variants": rng.randint(2, 5)}


def _gen_call(rng, W, prop):
    """One analysis + arguments, from the current reference state."""
    ref = W.ref
    rids, gids = sorted(ref.rxns), sorted(ref.genes)
    pools = {
        "C05": ["fva"] * 6 + ["blocked"],
        "C06": ["single_gene_deletion", "double_gene_deletion", "single_reaction_deletion", "double_reaction_deletion",
                "essential_genes", "essential_reactions"],
        "C14": ["fva", "fva", "blocked", "single_gene_deletion", "double_gene_deletion", "single_reaction_deletion",
                "double_reaction_deletion", "essential_genes", "essential_reactions", "sample"],
        "C13": list(ANALYSES) + ["gapfill", "gapfill", "production_envelope"],  # the two with the most argument-dependent paths
    }[prop]
    kind = rng.choice(pools)
    a = {}

    def subset(lst, pmin=1):
        if not lst:
            return []
        k = rng.randint(pmin, len(lst))
        return rng.sample(lst, k)

    if kind == "fva":
        if rng.random() < 0.6:
            a["rxns"] = subset(rids)
            a["as_obj"] = rng.choice([True, True, False, False, "foreign"])
            if a["rxns"] and rng.random() < 0.1:
                a["rxns"].append(rng.choice(a["rxns"]))  # the same reaction requested twice
        base = fba.solve_ref(ref)
        sign_ok = base is not None and base[0].status == "optimal" and (
            (ref.direction == "max" and base[0].value >= 0) or (ref.direction == "min" and base[0].value <= 0))
        a["fraction"] = rng.choice([1.0, 1.0, 0.9, 0.5, 0.0]) if sign_ok else 1.0
        if rng.random() < 0.25:
            a["pfba_factor"] = rng.choice([1.0, 1.1, 2.0])
        if rng.random() < (0.15 if prop != "C13" else 0.3):
            a["loopless"] = True
            a.pop("pfba_factor", None)
    elif kind == "blocked":
        if rng.random() < 0.4:
            a["rxns"] = subset(rids)
        a["open_exchanges"] = rng.random() < 0.3
    elif kind in ("essential_genes", "essential_reactions"):
        if rng.random() < 0.5:
            a["threshold"] = rng.choice([0.1, 1.0, 0.01])
    elif kind.endswith("_deletion"):
        lst = gids if "gene" in kind else rids
        if not lst:
            kind, lst = kind.replace("gene", "reaction"), rids
        if rng.random() < 0.6:
            a["l1"] = subset(lst)
        if "double" in kind and rng.random() < 0.6:
            a["l2"] = subset(lst)
            if a.get("l1") is None:
                a["l1"] = subset(lst)
        if rng.random() < 0.06:
            a[rng.choice(["l1", "l2"]) if "double" in kind else "l1"] = []  # given, but empty
        a["as_obj"] = rng.choice([True, True, False, False, "foreign"])
        if "double" in kind and a.get("l2") is not None and rng.random() < 0.3:
            a["l1"] = None  # only the second list is given: all x l2
        if rng.random() < 0.5:
            a["accessor"] = [{"i": rng.randint(0, 6), "obj": rng.random() < 0.5, "bare": rng.random() < 0.5} for _ in range(2)]
        if prop == "C13" and rng.random() < 0.4:
            a["method"] = rng.choice(["linear moma", "linear room"])
        elif prop in ("C06", "C14") and rng.random() < 0.25:
            a["method"] = "linear moma"
    elif kind == "optimize":
        if rng.random() < 0.5:
            a["sense"] = rng.choice(["maximize", "minimize"])
        a["raise_error"] = rng.random() < 0.3
    elif kind == "pfba":
        a["fraction"] = rng.choice([1.0, 0.8])
        if rng.random() < 0.35:
            a.update(objective=rng.choice(rids), objective_as=rng.choice(["dict", "optlang"]))
    elif kind == "room":
        if W.model.solver.interface.__name__ == "optlang.glpk_interface" and rng.random() < 0.4:
            a["linear"] = False  # the mixed-integer form
    elif kind == "production_envelope":
        ex = [r for r in rids if r.startswith("EX_")]
        if not ex:
            kind = "pfba"
        else:
            a["rxns"] = [rng.choice(ex)]
            a["points"] = rng.choice([3, 4])
            if rng.random() < 0.5:
                a["objective"] = rng.choice(rids)  # an objective other than the model's own, for this call only
    elif kind == "assess":
        a["rxn"] = rng.choice(rids)
    elif kind == "minimal_medium":
        a.update(min_obj=rng.choice([0.1, 1.0, 1e6]), components=rng.random() < 0.3, open_exchanges=rng.random() < 0.3,
                 exports=rng.random() < 0.2)
    elif kind == "gapfill":
        uni = {"id": "uni", "name": None, "comps": {}, "mets": [m for m in ({"id": k, **{kk: vv for kk, vv in v.items() if kk in ("name", "formula", "charge", "compartment")}} for k, v in ref.mets.items())],
               "rxns": [{"id": "U0", "name": "", "subsystem": "", "lb": 0, "ub": 1000,
                         "mets": [[m, c] for m, c in zip(rng.sample(sorted(ref.mets), min(2, len(ref.mets))), (-1, 1))], "tree": None}],
               "objective": {"U0": 1}, "direction": "max", "groups": []}
        internal = [r for r in rids if not r.startswith(("EX_", "DM_")) and r != "BIO" and len(ref.rxns[r]["mets"]) >= 2]
        if internal and rng.random() < 0.6:
            # the universal model offers a detour around one internal reaction through a metabolite the model does not know;
            # that reaction is shut in the model first, so that the detour is what gapfilling proposes
            # preferably a reaction the objective cannot do without
            base = exact_opt(ref)
            need = []
            if base is not None and base.status == "optimal" and abs(float(base.value)) >= 0.1 and len(internal) <= 8:
                for r0 in internal:
                    ko = exact_opt(ref, {r0})
                    if ko is not None and (ko.status != "optimal" or abs(float(ko.value)) < 0.01):
                        need.append(r0)
            R = rng.choice(need or internal)
            subs = [[m, c] for m, c in sorted(ref.rxns[R]["mets"].items()) if c < 0]
            prods = [[m, c] for m, c in sorted(ref.rxns[R]["mets"].items()) if c > 0]
            if subs and prods and "Unew" not in ref.mets:
                uni["mets"].append({"id": "Unew", "name": "", "formula": None, "charge": None, "compartment": "c"})
                uni["rxns"].append({"id": "Ua", "name": "", "subsystem": "", "lb": 0, "ub": 1000, "mets": subs + [["Unew", 1]], "tree": None})
                uni["rxns"].append({"id": "Ub", "name": "", "subsystem": "", "lb": 0, "ub": 1000, "mets": [["Unew", -1]] + prods, "tree": None})
                a["blocks"] = R
        a.update(universal=uni, demand=rng.random() < 0.5)
        if rng.random() < 0.5:
            a["penalties"] = {rng.choice(["universal", "exchange", "demand", "U0"]): rng.choice([1, 5, 50])}
    elif kind == "summary":
        a.update(fva=rng.choice([None, None, 0.9]), met=rng.choice(sorted(ref.mets)), rxn=rng.choice(rids))
    elif kind == "sample":
        a.update(n=rng.choice([2, 4, 5]), method=rng.choice(["optgp", "achr"]) if prop == "C13" else "optgp",
                 thinning=rng.choice([1, 2, 3]), seed=rng.randint(1, 10 ** 6))
        if rng.random() < 0.4:
            a["again"] = rng.choice([1, 3, 4])
    return kind, a


def _permute(rng, a, kind):
    b = copy.deepcopy(a)
    for k in ITEM_LISTS.get(kind, ()):
        if b.get(k):
            rng.shuffle(b[k])
    if "as_obj" in b:
        b["as_obj"] = rng.random() < 0.5
    return b


def gen_ops(rng, W, prop, sw, run_cfg):
    """Generator of ops (a Python generator: each op is executed before the next one is produced)."""
    if sw["platform"] == "Windows":
        yield {"op": "platform", "name": "Windows"}
    if sw.get("bg_knockout") and W.ref.genes:
        yield {"op": "bg_knockout", "g": rng.choice(sorted(W.ref.genes)), "flag_only": rng.random() < 0.4}
    pre_fix = prop == "C13" and sw.get("pre_fix")
    if pre_fix:
        # the user pinned the objective of the model *as it is now*; the model is not edited afterwards in such runs (a pin that a
        # later edit contradicts makes the model infeasible, where "the same result twice" is not defined)
        yield {"op": "pre_fix_objective", "fraction": rng.choice([0.9, 0.5, 1.0])}
    if sw["aged"]:
        yield {"op": "age", "r": rng.choice(sorted(W.ref.rxns)), "dir": rng.choice(["max", "min"])}
    if sw["user_ctx"] and prop in ("C13",):
        yield {"op": "user_enter", "r": rng.choice(sorted(W.ref.rxns)), "ub": rng.choice([500, 5, 50])}
    n_calls = rng.randint(1, 3)
    for ci in range(n_calls):
        if rng.random() < 0.35 and not pre_fix:
            # leave the solver with an optimal solution of the current model, then tighten the model
            r = rng.choice(sorted(W.ref.rxns))
            x = W.ref.rxns[r]
            lb, ub = rng.choice([(0, 0), (max(x["lb"], -1), min(x["ub"], 1)), (0, x["ub"]) if x["ub"] >= 0 else (x["lb"], x["ub"]),
                                 (x["lb"], 0) if x["lb"] <= 0 else (x["lb"], x["ub"])])
            if lb <= ub:
                yield {"op": "age", "r": rng.choice(sorted(W.ref.rxns)), "dir": rng.choice(["max", "min"]), "plain": True}
                yield {"op": "edit", "r": r, "lb": lb, "ub": ub}
        if ci > 0 and W.ref.genes and rng.random() < 0.25:
            yield {"op": "edit_genes", "g": rng.choice(sorted(W.ref.genes))}
        kind, a = _gen_call(rng, W, prop)
        if kind == "gapfill" and a.get("blocks") and not pre_fix:
            yield {"op": "edit", "r": a["blocks"], "lb": 0, "ub": 0}
        par = kind in PARALLEL
        ref_op = {"op": kind, "args": a, "processes": 1, "role": "ref"}
        yield ref_op
        key = canon_key(ref_op)
        if prop in ("C14", "C05", "C06") or (prop == "C13" and rng.random() < 0.5):
            nv = sw["n_variants"] if par else 1
            for _ in range(nv):
                p = rng.randint(2, 16) if par else 1
                if kind == "sample":
                    # reproducible for a fixed seed *and process count*: same count twice, different schedules
                    pp = rng.choice([2, 3, 4])
                    yield {"op": kind, "args": copy.deepcopy(a), "processes": pp, "role": "var"}
                    yield {"op": kind, "args": copy.deepcopy(a), "processes": pp, "role": "var"}
                    continue
                if rng.random() < 0.15:
                    yield {"op": "set_config_processes", "n": p}
                    yield {"op": kind, "args": _permute(rng, a, kind), "processes": None, "role": "var"}
                    yield {"op": "set_config_processes", "n": 1}
                else:
                    yield {"op": kind, "args": _permute(rng, a, kind), "processes": p, "role": "var"}
            # single-item calls
            if prop in ("C14",) and kind in ITEM_LISTS and kind != "blocked":
                for _ in range(2):
                    b = copy.deepcopy(a)
                    lists = ITEM_LISTS[kind]
                    universe = sorted(W.ref.genes) if "gene" in kind else sorted(W.ref.rxns)
                    ok = True
                    for k in lists:
                        src = a.get(k) if a.get(k) is not None else (a.get("l1") if k == "l2" and a.get("l1") is not None else universe)
                        if not src:
                            ok = False
                            break
                        b[k] = [rng.choice(src)]
                    if ok:
                        yield {"op": kind, "args": b, "processes": rng.choice([1, 2]), "role": "single", "parent_key": key}
        if prop in ("C05", "C14") and kind == "fva" and not a.get("loopless"):
            K = ref_op.get("_K", 0)
            for _ in range(2):
                if K >= 2:
                    p = rng.choice([1, 1, rng.randint(2, 6)])
                    f = {"k": rng.randint(2, K), "verdict": rng.choice(["time_limit", "feasible", "infeasible"])}
                    if rng.random() < 0.4:
                        f["null_value"] = True
                    yield {"op": kind, "args": _permute(rng, a, kind), "processes": p, "role": "fault", "fault": f}
        if prop == "C13":
            # fault enumeration: every solver call index x every verdict, serial and (for parallel analyses) simulated-parallel
            for mode in (["serial", "pool"] if par and rng.random() < 0.7 else ["serial"]):
                p = 1 if mode == "serial" else rng.randint(2, 6)
                probe = {"op": kind, "args": copy.deepcopy(a), "processes": p, "role": "repeat" if p == 1 else "var"}
                yield probe
                K = probe.get("_K", 0)
                ks = list(range(1, K + 1))
                if len(ks) > run_cfg.get("max_fault_points", 40):
                    ks = sorted(rng.sample(ks, run_cfg.get("max_fault_points", 40)))
                    W.stats["fault_points_sampled"] += 1
                else:
                    W.stats["fault_points_complete"] += 1
                for k in ks:
                    for verdict in simpool.VERDICTS:
                        yield {"op": kind, "args": copy.deepcopy(a), "processes": p, "role": "fault",
                               "fault": {"k": k, "verdict": verdict}}
                yield {"op": kind, "args": copy.deepcopy(a), "processes": p, "role": "repeat" if p == 1 else "var"}


# ------------------------------------------------------------------------------------------
# engine interface


def _execute(trace, prop, run_cfg, streams=None):
    res = RunResult()
    res.trace = trace
    hs = Streams(trace["cfg"].get("hash_seed", 0))
    seams.reset_world(hs)
    gen_mode = streams is not None
    ctx = simpool.begin_run(streams if gen_mode else None, None if gen_mode else trace.get("schedule", {}), res.stats)
    import cobra.util.process_pool as pp

    pp.system = lambda: "Linux"
    step_digests = []
    W = None
    try:
        try:
            W = World(trace, prop, res.stats, run_cfg, ctx)
            if gen_mode:
                rng = streams("ops")
                it = gen_ops(rng, W, prop, trace["cfg"]["swarm"], run_cfg)
            else:
                it = iter(trace["ops"])
            s = 0
            for op in it:
                if gen_mode:
                    trace["ops"].append(op)
                if run_cfg.get("verbose"):
                    print(f"  begin {s}: {_pub(op)}", flush=True)
                try:
                    snap = W.step(op)
                except Violation as v:
                    v.step = s
                    if v.culprit is None:
                        v.culprit = _pub(op)
                    raise
                step_digests.append(digest([_pub(op), op.get("_K")]))
                s += 1
                res.steps += 1
                if run_cfg.get("verbose"):
                    print(f"  step {s}: {_pub(op)} K={op.get('_K')}")
                if s >= run_cfg.get("max_ops", 4000):
                    break
            W.finish()
        except StopRun:
            res.stats["stopped_runs"] += 1
        except Violation as v:
            res.violation = v.as_dict()
    finally:
        trace["schedule"] = ctx.recorded
        res.sim_time = ctx.clock
        for il in ctx.interleavings:
            res.inter.add(digest(il))
        simpool.end_run()
        seams.cleanup_tmp()
        pp.system = lambda: "Linux"
    for op in trace["ops"]:
        op.pop("_K", None)
    res.nontrivial = bool(W and W.changed and (prop != "C14" or len(res.inter) > 0))
    res.trace_digest = digest([trace["ops"], step_digests, trace["schedule"]])
    return res


def generate_and_run(run_seed, prop, tier, run_cfg):
    St = Streams(run_seed)
    sw = make_swarm(St("swarm"), prop, run_cfg)
    spec = gen_network(St("model"), sw)
    if prop == "C13" and St("swarm").random() < 0.3:
        r = St("model")
        ids = [x["id"] for x in spec["rxns"]]
        spec["user_cons"] = [{"name": "ucon0", "expr": [[i, r.choice([1, -1, 2])] for i in r.sample(ids, min(2, len(ids)))],
                              "lb": r.choice([None, -5, 0]), "ub": r.choice([5, 10, 100])}]
    trace = {"engine": "pool", "cfg": {"model": spec, "swarm": sw, "hash_seed": St("hash").getrandbits(32)}, "ops": [],
             "schedule": {}}
    return _execute(trace, prop, run_cfg, streams=St)


def replay(trace, prop, run_cfg):
    t = {"engine": "pool", "cfg": copy.deepcopy(trace["cfg"]), "ops": copy.deepcopy(trace["ops"]),
         "schedule": copy.deepcopy(trace.get("schedule", {}))}
    return _execute(t, prop, run_cfg)


def simplify(trace):
    # schedule decisions -> default, one label at a time, then one decision at a time
    sched = trace.get("schedule", {})
    for label, seq in sched.items():
        if any(v is not None for v in seq):
            t = copy.deepcopy(trace)
            t["schedule"][label] = [None] * len(seq)
            yield t
    for s, op in enumerate(trace["ops"]):
        if op.get("processes") and op["processes"] > 2:
            t = copy.deepcopy(trace)
            t["ops"][s]["processes"] = 2
            yield t
        f = op.get("fault")
        if f and f["k"] > 1:
            t = copy.deepcopy(trace)
            t["ops"][s]["fault"]["k"] = f["k"] - 1
            yield t
        for k in ("rxns", "l1", "l2"):
            v = (op.get("args") or {}).get(k)
            if isinstance(v, list) and len(v) > 1:
                for j in range(len(v)):
                    t = copy.deepcopy(trace)
                    del t["ops"][s]["args"][k][j]
                    yield t
    spec = trace["cfg"]["model"]
    for j, r in enumerate(spec["rxns"]):
        if r["id"] in spec["objective"]:
            continue
        t = copy.deepcopy(trace)
        del t["cfg"]["model"]["rxns"][j]
        yield t
    for j, r in enumerate(spec["rxns"]):
        if r.get("tree") is not None:
            t = copy.deepcopy(trace)
            t["cfg"]["model"]["rxns"][j]["tree"] = None
            yield t


def sample_of(trace):
    spec = trace["cfg"]["model"]
    return {"model": {"reactions": [{k: r[k] for k in ("id", "lb", "ub", "mets", "tree")} for r in spec["rxns"]],
                      "objective": spec["objective"], "direction": spec["direction"], "solver": spec.get("solver")},
            "ops": [_pub(o) for o in trace["ops"][:10]],
            "schedule": {k: v[:12] for k, v in trace.get("schedule", {}).items()}}


def match_finding(trigger, trace, violation):
    from ..quarantine import TRIGGERS

    fn = TRIGGERS.get(trigger)
    return bool(fn and fn(trace, violation))
