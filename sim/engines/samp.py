"""SAMP engine: the samplers as seeded stochastic processes (C16).

The simulator owns numpy's global RNG (so a whole walk is a function of the run seed), the clock used
as default seed, and - for OptGP with processes > 1 - the process pool (SimPool).  Oracles: independent
feasibility check on the *reference* stoichiometry, shape/columns, seed replay under perturbed global RNG
state and a different pool schedule, agreement with sampler.validate(), and an unchanged model.
"""
from __future__ import annotations

import contextlib
import copy
import math
import warnings

from .. import seams, simpool
from .. import snapshot as S
from ..core import RunResult, Streams, Violation, digest
from ..refmodel import reverse_id
from . import hist, pool

SHRINK_LISTS = ("ops",)
ATOL = 1e-6  # 10x the sampler's documented tolerance (model.tolerance = 1e-7), absolute as in validate()


def gen_model(rng, sw):
    spec = pool.gen_network(rng, dict(sw, p_infinite=0.0))
    for r in spec["rxns"]:
        if r["ub"] == math.inf:
            r["ub"] = 1000
        if r["lb"] == -math.inf:
            r["lb"] = -1000
    kind = sw["shape"]
    ids = [r["id"] for r in spec["rxns"]]
    if kind in ("forced", "mixed"):
        r = rng.choice(spec["rxns"])
        r["lb"], r["ub"] = rng.choice([(0.5, 10), (1, 1000), (-10, -0.5)])
    if kind in ("fixed", "mixed"):
        r = rng.choice(spec["rxns"])
        v = rng.choice([0, 1, 0.5])
        r["lb"], r["ub"] = v, v
    if kind == "narrow":
        # a narrow, strictly positive forced range: the walk keeps hitting the boundary and takes the retry path
        r = rng.choice(spec["rxns"])
        v = rng.choice([0.5, 1, 2])
        r["lb"], r["ub"] = v, v + rng.choice([3e-7, 1e-6, 5e-6, 0.0005, 0.01])
    if sw.get("late") and len(spec["rxns"]) >= 2:
        cyt = [m["id"] for m in spec["mets"] if m["compartment"] == "c"]
        spec["late_reaction"] = {"id": "LATE", "lb": 0, "ub": rng.choice([5, 10]), "met": rng.choice(cyt),
                                 "sum_of": rng.sample(ids, 2)}
    spec["user_cons"] = []
    if sw["extra_cons"] or (kind == "narrow" and rng.random() < 0.7):
        rs = rng.sample(ids, min(len(ids), 2))
        if rng.random() < (0.4 if kind != "narrow" else 0.9):
            v = rng.choice([1, 2, 0.5, 5])  # an equality with non-zero right-hand side: an inhomogeneous problem
            spec["user_cons"].append({"name": "ucon0", "expr": [[r, 1] for r in rs], "lb": v, "ub": v})
        else:
            spec["user_cons"].append({"name": "ucon0", "expr": [[r, rng.choice([1, -1, 2])] for r in rs],
                                      "lb": rng.choice([None, -5, 0]), "ub": rng.choice([5, 10, 100])})
    if spec["user_cons"] and len(ids) >= 2 and rng.random() < 0.5:
        # a second (and sometimes third) inequality constraint: loose enough never to bind
        for n in range(rng.randint(1, 2)):
            rs = rng.sample(ids, 2)
            spec["user_cons"].append({"name": f"ucon{n + 1}", "expr": [[rs[0], 1], [rs[1], rng.choice([1, -1])]], "lb": -50000, "ub": 50000})
    return spec


class World:
    def __init__(self, trace, stats, ctx):
        self.stats, self.ctx = stats, ctx
        spec = trace["cfg"]["model"]
        self.model = hist.build_model(spec)
        self.ref = hist.ref_from_spec(spec)
        for c in spec.get("user_cons", []):
            expr = 0
            for rid, k in c["expr"]:
                expr = expr + k * self.model.reactions.get_by_id(rid).flux_expression
            self.model.add_cons_vars([self.model.problem.Constraint(expr, lb=c["lb"], ub=c["ub"], name=c["name"])])
            self.ref.apply({"op": "add_cons", **c}, None)
        if spec.get("late_reaction"):
            # an auxiliary solver variable (defined as the sum of two fluxes; it restricts nothing) sits *before* the variables of a
            # reaction that is added afterwards
            from cobra import Reaction

            lr = spec["late_reaction"]
            m = self.model
            aux = m.problem.Variable("aux_total", lb=-100000, ub=100000)
            expr = aux - sum(m.reactions.get_by_id(r).flux_expression for r in lr["sum_of"])
            m.add_cons_vars([aux, m.problem.Constraint(expr, lb=0, ub=0, name="aux_total_def")])
            m.solver.update()
            r = Reaction(lr["id"], lower_bound=lr["lb"], upper_bound=lr["ub"])
            r.add_metabolites({m.metabolites.get_by_id(lr["met"]): -1})
            m.add_reactions([r])
            self.ref.rxns[lr["id"]] = {"lb": lr["lb"], "ub": lr["ub"], "mets": {lr["met"]: -1}, "rule": None, "name": "", "subsystem": "",
                                       "notes": {}, "annotation": {}}
            stats["probe:aux_variable_before_late_reaction"] += 1
        self.results = {}
        self.changed = False

    def step(self, op):
        import numpy as np
        from cobra.sampling import ACHRSampler, OptGPSampler, sample

        if op["op"] == "perturb_rng":
            np.random.seed(op["seed"])
            for _ in range(op.get("draws", 0)):
                np.random.random()
            return
        before = S.snap(self.model)
        m, n, p = op["method"], op["n"], op.get("processes", 1)
        self.stats[f"op:{m}"] += 1
        raised = None
        sampler, df = None, None
        self.ctx.solver_calls = 0
        self.ctx.fault = op.get("fault")
        self.ctx.fault_fired = 0
        try:
            with warnings.catch_warnings(), contextlib.redirect_stdout(hist._DEVNULL):
                warnings.simplefilter("ignore")
                if op.get("via") == "function":
                    df = sample(self.model, n, method=m, thinning=op["thinning"], processes=p, seed=op.get("seed"))
                else:
                    kw = {"thinning": op["thinning"], "seed": op.get("seed")}
                    if op.get("nproj"):
                        kw["nproj"] = op["nproj"]
                    sampler = ACHRSampler(self.model, **kw) if m == "achr" else OptGPSampler(self.model, processes=p, **kw)
                    if op.get("between"):
                        self._other_sampler(op["between"])
                    df = sampler.sample(n, fluxes=op.get("fluxes", True))
                    if op.get("again"):
                        # the sampler object carries state (centre, sample count) into its next call: those samples count too
                        import pandas as pd

                        df2 = sampler.sample(op["again"], fluxes=op.get("fluxes", True))
                        self.stats["probe:second_call_on_same_sampler"] += 1
                        df = pd.concat([df, df2], ignore_index=True)
        except Exception as e:
            raised = e
        finally:
            self.ctx.fault = None
        faulted = self.ctx.fault_fired > 0
        if faulted:
            self.stats["faulted_calls"] += 1
        after = S.snap(self.model)
        d = S.diff(before, after)
        if d:
            raise Violation("unchanged", {"what": "sampling modified the model", "diff(before,after)": d[:6]}, culprit=op)
        if raised is not None:
            # documented refusals: infeasible model, sampling region is a single point / too few warmup points
            if isinstance(raised, (ValueError,)) or type(raised).__name__ in ("Infeasible", "OptimizationError", "UndefinedSolution") or (
                    isinstance(raised, RuntimeError) and "Cannot escape sampling region" in str(raised)):
                self.stats["refusals"] += 1
                self.stats[f"refusal:{type(raised).__name__}:{str(raised)[:50]}"] += 1
                return
            if faulted:
                self.stats["refusals_under_fault"] += 1
                return  # any exception is an acceptable answer to a failed solver call; wrong samples are not
            raise Violation("sampler_raises", {"exception": repr(raised)[:300]}, culprit=op)
        self.changed = True
        if sampler is not None and getattr(sampler, "retries", 0):
            self.stats["probe:sampler_retry_path_taken"] += 1
        fluxes = op.get("fluxes", True) or op.get("via") == "function"
        rids = [r.id for r in self.model.reactions]
        want_n = n if (m == "achr" or p <= 1) else int(math.ceil(n / p)) * p
        if op.get("again") and op.get("via") != "function":
            a2 = op["again"]
            want_n += a2 if (m == "achr" or p <= 1) else int(math.ceil(a2 / p)) * p
        if df.shape[0] != want_n:
            raise Violation("sample_shape", {"what": "number of samples", "got": int(df.shape[0]), "want": want_n}, culprit=op)
        cols = [str(c) for c in df.columns]
        if fluxes:
            if cols != rids:
                raise Violation("sample_shape", {"what": "columns are not the model's reactions in order", "got": cols, "want": rids}, culprit=op)
        else:
            vn = [v.name for v in self.model.variables]
            if cols != vn:
                raise Violation("sample_shape", {"what": "columns are not the solver variables in order", "got": cols[:6], "want": vn[:6]}, culprit=op)
        # ---- independent feasibility on the reference ----
        rows = df.values.tolist()
        bad_rows = []
        for i, row in enumerate(rows):
            vals = dict(zip(cols, row))
            if fluxes:
                v = vals
            else:
                v = {r: vals[r] - vals[reverse_id(r)] for r in rids}
                for r in rids:
                    if vals[r] < -ATOL or vals[reverse_id(r)] < -ATOL:
                        bad_rows.append((i, f"negative split variable for {r}"))
            probs = self._infeasible(v)
            if probs:
                bad_rows.append((i, probs[0]))
        if bad_rows:
            raise Violation("sample_feasible", {"what": "a returned sample is not a feasible flux distribution",
                                                "rows": bad_rows[:4], "n_bad": len(bad_rows), "n": len(rows)}, culprit=op)
        self.stats["probe:samples_checked"] += len(rows)
        # ---- validate() agrees ----
        if sampler is not None:
            try:
                codes = list(sampler.validate(df.values))
            except Exception as e:
                raise Violation("validate_agrees", {"what": "validate() raises for the sampler's own samples", "exception": repr(e)[:300]}, culprit=op)
            if any(c != "v" for c in codes):
                raise Violation("validate_agrees", {"what": "validate() flags samples the independent check accepts", "codes": codes[:8]}, culprit=op)
            if rows:
                j = op.get("perturb_col", 0) % len(cols)
                broken = copy.deepcopy(rows[0])
                broken[j] += 5000.0
                c2 = sampler.validate(np.array([broken]))[0]
                if c2 == "v":
                    raise Violation("validate_agrees", {"what": "validate() accepts a sample moved 5000 units out of bounds"}, culprit=op)
                self.stats["probe:validate_perturbation_checked"] += 1
                if len(rows) >= 2:
                    # one bad row inside a batch: exactly that row is flagged.  In solver-variable space the perturbation is chosen
                    # so that it breaks a user constraint when there is one (those are only visible there)
                    batch = copy.deepcopy(rows)
                    k = (op.get("perturb_col", 0) * 7 + 1) % len(batch)
                    jj = j
                    if not fluxes:
                        ucols = [cols.index(r) for u in self.ref.user.values() if u["kind"] == "con" for r in u["coefs"] if r in cols]
                        if ucols:
                            jj = ucols[op.get("perturb_col", 0) % len(ucols)]
                    batch[k][jj] += 5000.0
                    codes2 = list(sampler.validate(np.array(batch)))
                    wrong = [i for i, c in enumerate(codes2) if (c == "v") == (i == k)]
                    if wrong:
                        raise Violation("validate_agrees", {"what": "one sample of a batch was moved out of bounds: validate() must flag that one and "
                                                                    "only that one", "bad_row": k, "codes": [str(c) for c in codes2][:10]}, culprit=op)
                    self.stats["probe:validate_batch_with_one_bad_row"] += 1
        # ---- seed replay ----
        if op.get("seed") is not None and not faulted and not op.get("fault"):
            key = digest({k: v for k, v in op.items() if k not in ("perturb_col", "between")})
            sig = [[round(x, 12) for x in row] for row in rows]
            if key in self.results:
                if self.results[key] != sig:
                    raise Violation("seed_replay", {"what": "same seed, same arguments, different samples"}, culprit=op)
                self.stats["probe:seed_replay_checked"] += 1
            else:
                self.results[key] = sig

    def _other_sampler(self, b):
        """Another sampler, for a *different* model (all bounds three times as wide), is built - and perhaps used - between the
        construction of a sampler and its use: sampler objects are independent of each other."""
        from cobra.sampling import ACHRSampler, OptGPSampler

        try:
            other = self.model.copy()
            for r in other.reactions:
                r.bounds = (3 * r.lower_bound, 3 * r.upper_bound)
            kw = {"thinning": b.get("thinning", 1), "seed": b.get("seed")}
            o = ACHRSampler(other, **kw) if b["method"] == "achr" else OptGPSampler(other, processes=b.get("processes", 1), **kw)
            if b.get("n"):
                o.sample(b["n"])
            self.stats["probe:other_sampler_between_construction_and_use"] += 1
        except Exception:
            self.stats["other_sampler_refused"] += 1

    def _infeasible(self, v):
        probs = []
        ref = self.ref
        for r, x in ref.rxns.items():
            val = v[r]
            if val != val:
                probs.append(f"{r} is NaN")
            if val < x["lb"] - ATOL:
                probs.append(f"{r}={val} below lower bound {x['lb']}")
            if val > x["ub"] + ATOL:
                probs.append(f"{r}={val} above upper bound {x['ub']}")
        for m in ref.mets:
            s = sum(x["mets"][m] * v[r] for r, x in ref.rxns.items() if m in x["mets"])
            if abs(s) > ATOL * 10:
                probs.append(f"steady state of {m} violated by {s}")
        for n, u in ref.user.items():
            if u["kind"] != "con":
                continue
            val = sum(u["coefs"].get(r, 0) * v[r] for r in ref.rxns)
            if u["lb"] != -math.inf and val < u["lb"] - ATOL * 10:
                probs.append(f"constraint {n}={val} below {u['lb']}")
            if u["ub"] != math.inf and val > u["ub"] + ATOL * 10:
                probs.append(f"constraint {n}={val} above {u['ub']}")
        return probs


def make_swarm(rng):
    return {"max_mets": rng.randint(2, 4), "max_rxns": rng.randint(1, 4), "n_genes": 2, "p_rule": 0.1,
            "solver": "glpk", "shape": rng.choice(["homogeneous", "homogeneous", "forced", "fixed", "mixed", "narrow", "narrow"]),
            "late": rng.random() < 0.25,
            "extra_cons": rng.random() < 0.45}


def gen_ops(rng, W):
    n_calls = rng.randint(1, 3)
    for _ in range(n_calls):
        m = rng.choice(["achr", "optgp", "optgp"])
        op = {"op": "sampler", "method": m, "n": rng.choice([1, 2, 3, 5, 8]), "thinning": rng.choice([1, 3, 10]),
              "nproj": rng.choice([None, 1, 7]), "seed": rng.choice([None, rng.randint(1, 10 ** 6), rng.randint(1, 10 ** 6)]),
              "fluxes": rng.random() < 0.7, "via": rng.choice(["object", "object", "function"]),
              "processes": rng.choice([1, 1, 2, 3, 4]) if m == "optgp" else 1, "perturb_col": rng.randint(0, 5)}
        if rng.random() < 0.3:
            op["again"] = rng.choice([1, 2, 4])
        if op["via"] == "object" and rng.random() < 0.3:
            op["between"] = {"method": rng.choice(["optgp", "optgp", "achr"]), "processes": rng.choice([1, 1, 2]),
                             "seed": rng.randint(1, 10 ** 6), "n": rng.choice([0, 0, 2]), "thinning": rng.choice([1, 3])}
        yield op
        if rng.random() < 0.25:
            # a warm-up solve fails (numerically hard models do that): the sampler skips it - the samples must stay feasible
            f = copy.deepcopy(op)
            f["fault"] = {"k": rng.randint(1, 12), "verdict": rng.choice(["infeasible", "undefined", "time_limit"])}
            yield f
        if op["seed"] is not None:
            yield {"op": "perturb_rng", "seed": rng.randint(0, 2 ** 31 - 1), "draws": rng.randint(0, 5)}
            again = copy.deepcopy(op)
            if "between" in again and rng.random() < 0.6:
                del again["between"]  # the same call without another sampler in between: same samples
            yield again


def _execute(trace, prop, run_cfg, streams=None):
    res = RunResult()
    res.trace = trace
    hs = Streams(trace["cfg"].get("hash_seed", 0))
    seams.reset_world(hs)
    gen_mode = streams is not None
    ctx = simpool.begin_run(streams if gen_mode else None, None if gen_mode else trace.get("schedule", {}), res.stats)
    W = None
    step_digests = []
    try:
        try:
            W = World(trace, res.stats, ctx)
            it = gen_ops(streams("ops"), W) if gen_mode else iter(trace["ops"])
            s = 0
            for op in it:
                if gen_mode:
                    trace["ops"].append(op)
                try:
                    W.step(op)
                except Violation as v:
                    v.step = s
                    raise
                s += 1
                res.steps += 1
                step_digests.append(digest(op))
                if run_cfg.get("verbose"):
                    print(f"  step {s}: {op}")
        except Violation as v:
            res.violation = v.as_dict()
    finally:
        trace["schedule"] = ctx.recorded
        res.sim_time = ctx.clock
        for il in ctx.interleavings:
            res.inter.add(digest(il))
        simpool.end_run()
        seams.cleanup_tmp()
    res.nontrivial = bool(W and W.changed)
    res.trace_digest = digest([trace["ops"], step_digests, trace["schedule"], sorted(W.results) if W else None])
    return res


def generate_and_run(run_seed, prop, tier, run_cfg):
    St = Streams(run_seed)
    sw = make_swarm(St("swarm"))
    from .. import fba, reflp

    mr = St("model")
    for _ in range(8):  # C16's domain is feasible models: regenerate until the exact oracle proves feasibility
        spec = gen_model(mr, sw)
        ref = hist.ref_from_spec(spec)
        for c in spec.get("user_cons", []):
            ref.apply({"op": "add_cons", **c}, None)
        if spec.get("late_reaction"):
            lr = spec["late_reaction"]
            ref.rxns[lr["id"]] = {"lb": lr["lb"], "ub": lr["ub"], "mets": {lr["met"]: -1}, "rule": None, "name": "", "subsystem": "",
                                  "notes": {}, "annotation": {}}
        built = fba.build_lp(ref)
        if built is not None:
            r = reflp.solve(built[0], {}, "max")
            if r.certified and r.status == "optimal":
                break
    trace = {"engine": "samp", "cfg": {"model": spec, "swarm": sw, "hash_seed": St("hash").getrandbits(32)}, "ops": [], "schedule": {}}
    return _execute(trace, prop, run_cfg, streams=St)


def replay(trace, prop, run_cfg):
    t = {"engine": "samp", "cfg": copy.deepcopy(trace["cfg"]), "ops": copy.deepcopy(trace["ops"]),
         "schedule": copy.deepcopy(trace.get("schedule", {}))}
    return _execute(t, prop, run_cfg)


def simplify(trace):
    for s, op in enumerate(trace["ops"]):
        for k, v in (("n", 1), ("thinning", 1), ("processes", 1), ("nproj", None)):
            if op.get(k) not in (None, v) and k in op:
                t = copy.deepcopy(trace)
                t["ops"][s][k] = v
                yield t
    spec = trace["cfg"]["model"]
    for j, r in enumerate(spec["rxns"]):
        if r["id"] in spec["objective"] or any(r["id"] == x for c in spec.get("user_cons", []) for x, _ in c["expr"]):
            continue
        t = copy.deepcopy(trace)
        del t["cfg"]["model"]["rxns"][j]
        yield t
    if spec.get("user_cons"):
        t = copy.deepcopy(trace)
        t["cfg"]["model"]["user_cons"] = []
        yield t


def sample_of(trace):
    spec = trace["cfg"]["model"]
    return {"model": {"reactions": [{k: r[k] for k in ("id", "lb", "ub", "mets")} for r in spec["rxns"]],
                      "user_cons": spec.get("user_cons")}, "ops": trace["ops"][:6]}


def match_finding(trigger, trace, violation):
    from ..quarantine import TRIGGERS

    fn = TRIGGERS.get(trigger)
    return bool(fn and fn(trace, violation))
