"""HIST engine: seeded histories of public operations on live models ("actors"), each against
its own RefModel, with oracles selected per property (C01, C02, C03, C04, C07, C10, C11, C12).

A trace is {"engine": "hist", "cfg": {"model": spec, "swarm": {...}}, "ops": [...]}; every op is a
JSON dict naming objects by id, so replay needs no PRNG and ddmin may drop steps freely: an op whose
subject no longer exists is skipped, an op with stale arguments becomes a failing operation (legal).
"""
from __future__ import annotations

import contextlib
import copy
import io
import math
import os
import pathlib
import pickle
import random

from .. import fba, gprtree, seams
from ..core import RunResult, Streams, Violation, digest
from ..refmodel import Ref, reverse_id
from .. import quarantine as Q
from .. import snapshot as S

SHRINK_LISTS = ("ops",)
INF = math.inf

BOUNDS = [0, 0, 1, -1, 5, -5, 10, -10, 1000, -1000, INF, -INF, 0.5, 2.5, 100, -100]
COEFS = [1, -1, 1, -1, 2, -2, 0.5, 3, -1.5]
MULTS = [-1, 2, 0.5, -2, 4, 3]
GENES = ["g0", "g1", "g2", "g3", "g4", "g5"]
MET_IDS = ["A", "B", "C", "D", "E", "F", "G", "H"]

# operations the documentation calls reversible inside `with model:` (C03's list)
REVERSIBLE = {
    "set_bounds", "knock_out_rxn", "add_mets", "sub_mets", "imul", "iadd", "isub", "set_rule", "set_gpr",
    "add_metabolites", "remove_metabolites", "add_boundary", "add_reactions", "remove_reactions",
    "set_objective", "set_direction", "set_obj_coef", "add_cons", "add_var", "remove_cons_vars",
    "knock_out_gene", "set_functional", "knock_out_model_genes", "remove_genes", "rename_genes",
    "medium", "build_from_string", "optimize", "slim_optimize", "enter", "exit", "exit_exc",
    "copy", "deepcopy", "pickle", "rxn_copy", "rxn_arith", "helper", "merge", "det_mutate", "removed_mutate", "repair", "config_bounds", "solver",
    "ctx_removed_edit",
}
LIFECYCLE = {"copy", "deepcopy", "pickle"}
NO_CONTENT_CHANGE = {"optimize", "slim_optimize", "repair", "solver", "tolerance", "rxn_copy", "rxn_arith", "removed_mutate", "ctx_removed_edit"}


class _Null(io.TextIOBase):
    def write(self, s):
        return len(s)


_DEVNULL = _Null()


class Skip(Exception):
    pass


def depth_now(a):
    return len(a.model._contexts)


class EndRun(Exception):
    pass


class Env:
    def __init__(self, hist, actor):
        from cobra.core.configuration import Configuration

        c = Configuration()
        self.cfg_lb, self.cfg_ub = c.lower_bound, c.upper_bound
        self.observed = {}
        self.hist = hist
        self.actor = actor
        self.expected_return = None
        self.resync_rules = set()

    def other_rxn(self, op):
        src = op.get("src", "own")
        if src == "own":
            return self.actor.ref.rxns.get(op["r2"])
        if src == "foreign":
            bi = op.get("actor2", -1)
            if not (0 <= bi < len(self.hist.actors)):
                return None
            b = self.hist.actors[bi].ref
            y = b.rxns.get(op["r2"])
            if y is None:
                return None
            self.foreign_mets = {m: b.mets[m] for m in y["mets"] if m in b.mets}
            return y
        d = self.hist.detached.get(op["r2"])
        return d["ref"] if d else None


class Actor:
    def __init__(self, model, ref):
        self.model = model
        self.ref = ref
        self.prev = None
        self.enter_snaps = []
        self.sols = []


# ------------------------------------------------------------------------------------------
# model generation


def gen_model_spec(rng, sw):
    nm = rng.randint(2, sw["max_mets"])
    mets = []
    for i in range(nm):
        comp = "e" if i < max(1, nm // 3) else "c"
        mets.append({"id": MET_IDS[i], "name": rng.choice(["", f"met {MET_IDS[i]}", MET_IDS[i].lower()]),
                     "formula": rng.choice([None, "H2O", "C6H12O6", "CO2", ""]),
                     "charge": rng.choice([None, 0, -1, 2]), "compartment": comp})
    rxns = []
    for m in mets:
        if m["compartment"] == "e" and rng.random() < 0.85:
            lb, ub = rng.choice([(-10, 1000), (-1000, 1000), (0, 1000), (-5, 5), (-1, 0)])
            rxns.append({"id": f"EX_{m['id']}", "name": "", "subsystem": "", "lb": lb, "ub": ub,
                         "mets": [[m["id"], -1]], "tree": None})
    nr = rng.randint(2, sw["max_rxns"])
    for i in range(nr):
        k = rng.randint(1, min(3, nm))
        chosen = rng.sample(range(nm), k)
        ms = [[mets[j]["id"], rng.choice(COEFS)] for j in sorted(chosen)]
        if len(ms) >= 2 and all(c > 0 for _, c in ms) or all(c < 0 for _, c in ms) and len(ms) >= 2:
            ms[0][1] = -ms[0][1]
        lb, ub = sorted([rng.choice(BOUNDS), rng.choice(BOUNDS)])
        if rng.random() < 0.5 or lb == INF or ub == -INF:
            lb, ub = rng.choice([(0, 1000), (-1000, 1000), (0, 10), (-10, 10)])
        tree = gprtree.random_tree(rng, GENES[: sw["n_genes"]], 3) if rng.random() < sw["p_rule"] else None
        rxns.append({"id": f"R{i}", "name": rng.choice(["", f"rxn {i}"]),
                     "subsystem": rng.choice(["", "sub1", "sub2"]), "lb": lb, "ub": ub, "mets": ms,
                     "tree": tree})
    objr = rng.choice([r["id"] for r in rxns])
    groups = []
    if rng.random() < sw["p_groups"]:
        members = [["Reaction", r["id"]] for r in rxns if rng.random() < 0.4]
        members += [["Metabolite", m["id"]] for m in mets if rng.random() < 0.2]
        groups.append({"id": "grp0", "name": "group zero", "kind": rng.choice(["collection", "partonomy"]),
                       "members": members})
    return {"id": "m0", "name": rng.choice([None, "model zero"]),
            "comps": rng.choice([{}, {"c": "cytosol", "e": "extracellular"}]),
            "mets": mets, "rxns": rxns, "objective": {objr: 1}, "direction": rng.choice(["max", "max", "min"]),
            "groups": groups, "solver": sw.get("solver", "glpk")}


def _mk_met(d):
    from cobra import Metabolite

    return Metabolite(d["id"], formula=d.get("formula"), name=d.get("name", ""),
                      charge=d.get("charge"), compartment=d.get("compartment"))


def build_model(spec):
    from cobra import Model, Reaction
    from cobra.core import Group

    model = Model(spec["id"], name=spec.get("name"))
    if spec.get("solver", "glpk") != "glpk":
        model.solver = spec["solver"]
    mets = {d["id"]: _mk_met(d) for d in spec["mets"]}
    model.add_metabolites(list(mets.values()))
    if spec.get("comps"):
        model.compartments = spec["comps"]
    rxns = []
    for d in spec["rxns"]:
        r = Reaction(d["id"], name=d.get("name", ""), subsystem=d.get("subsystem", ""),
                     lower_bound=d["lb"], upper_bound=d["ub"])
        r.add_metabolites({mets[m]: c for m, c in d["mets"]})
        if d.get("tree") is not None:
            r.gene_reaction_rule = gprtree.plain(d["tree"])
        rxns.append(r)
    model.add_reactions(rxns)
    model.objective = {model.reactions.get_by_id(k): v for k, v in spec["objective"].items()}
    model.objective_direction = spec.get("direction", "max")
    for g in spec.get("groups", []):
        members = []
        for t, i in g["members"]:
            members.append({"Reaction": model.reactions, "Metabolite": model.metabolites,
                            "Gene": model.genes}[t].get_by_id(i))
        model.add_groups([Group(g["id"], name=g["name"], members=members, kind=g["kind"])])
    return model


def ref_from_spec(spec):
    r = Ref()
    r.id, r.name = spec["id"], spec.get("name")
    r.comps = dict(spec.get("comps") or {})
    for d in spec["mets"]:
        r.mets[d["id"]] = {"name": d.get("name", ""), "formula": d.get("formula"), "charge": d.get("charge"),
                           "compartment": d.get("compartment"), "notes": {}, "annotation": {}}
    for d in spec["rxns"]:
        r.rxns[d["id"]] = {"lb": d["lb"], "ub": d["ub"], "mets": {m: c for m, c in d["mets"]},
                           "rule": copy.deepcopy(d.get("tree")), "name": d.get("name", ""),
                           "subsystem": d.get("subsystem", ""), "notes": {}, "annotation": {}}
        r._ensure_genes(d.get("tree"))
    r.obj = dict(spec["objective"])
    r.direction = spec.get("direction", "max")
    for g in spec.get("groups", []):
        r.groups[g["id"]] = {"name": g["name"], "kind": g["kind"], "members": sorted(g["members"])}
    return r


# ------------------------------------------------------------------------------------------
# the simulated world


class Hist:
    def __init__(self, trace, prop, stats, run_cfg):
        self.prop = prop
        self.stats = stats
        self.cfg = trace["cfg"]
        self.run_cfg = run_cfg
        self.oracles = ORACLES[prop]
        self.quarantine = set(run_cfg.get("quarantine", []))
        S.DBLMAX_AS_INF = False
        self.detached = {}
        self.removed = {}  # (actor index, rid) -> (removed Reaction object, reference spec at removal time)
        self.ctx_removed = {}  # (actor index, rid) -> Reaction object removed while a context was open (it comes back on exit)
        self.changed = False
        spec = self.cfg["model"]
        model = build_model(spec)
        ref = ref_from_spec(spec)
        self.actors = [Actor(model, ref)]
        a = self.actors[0]
        a.prev = S.snap(model)
        self._judge_content(a, a.prev, "initial model", {"op": "build"})
        self._invariants(a, a.prev, {"op": "build"})

    # ---- object resolution ------------------------------------------------------------
    def rxn(self, a, rid):
        if not a.model.reactions.has_id(rid):
            raise Skip(f"no reaction {rid}")
        return a.model.reactions.get_by_id(rid)

    def met(self, a, mid):
        if not a.model.metabolites.has_id(mid):
            raise Skip(f"no metabolite {mid}")
        return a.model.metabolites.get_by_id(mid)

    def gene(self, a, gid):
        if not a.model.genes.has_id(gid):
            raise Skip(f"no gene {gid}")
        return a.model.genes.get_by_id(gid)

    def metref(self, a, mr):
        t = mr["t"]
        if t == "own":
            return self.met(a, mr["id"])
        if t == "id":
            return mr["id"]
        if t == "copy":
            return self.met(a, mr["id"]).copy()
        if t == "new":
            return _mk_met(mr)
        if t == "foreign":
            b = self.actors[mr["actor"]] if mr["actor"] < len(self.actors) else None
            if b is None or b is a:
                raise Skip("no foreign actor")
            self.stats["probe:operand_from_another_live_model"] += 1
            return self.met(b, mr["id"])
        raise Skip(t)

    # ---- oracles ----------------------------------------------------------------------
    def _judge_content(self, a, snap, what, op):
        if "ref_equal" not in self.oracles:
            return
        want = a.ref.content()
        got = snap["content"]
        if a.ref.obj is None:
            for rid in got["reactions"]:
                if rid in want["reactions"]:
                    want["reactions"][rid]["obj"] = got["reactions"][rid]["obj"]
        d = S.diff(got, want, rel=0.0)
        if not d and a.ref.direction != snap["objective"]["direction"]:
            d = [f"/direction: {snap['objective']['direction']} != {a.ref.direction}"]
        if d:
            raise Violation("ref_equal", {"what": what, "diff(model,reference)": d[:8]}, culprit=op)

    def _invariants(self, a, snap, op):
        if "xref" in self.oracles:
            p = S.xref_problems(a.model)
            if p:
                raise Violation("xref", {"problems": p[:8]}, culprit=op)
        if "lp_mirror" in self.oracles:
            p = S.lp_mirror_problems(a.model, a.ref.user, snap.get("lp"))
            if p:
                raise Violation("lp_mirror", {"problems": p[:8]}, culprit=op)

    # ---- one step ---------------------------------------------------------------------
    def step(self, op):
        kind = op["op"]
        ai = op.get("actor", 0)
        if ai >= len(self.actors):
            self.stats["skipped"] += 1
            return
        a = self.actors[ai]
        depth = len(a.model._contexts)
        if depth > 0 and kind not in REVERSIBLE:
            self.stats["skipped"] += 1
            return
        if kind in ("exit", "exit_exc") and depth == 0:
            self.stats["skipped"] += 1
            return
        if kind in LIFECYCLE and len(self.actors) >= 3:
            self.stats["skipped"] += 1
            return
        env = Env(self, a)
        pre = a.ref.clone(keep_stack=True)
        env.pre = pre
        real = getattr(self, "do_" + kind)
        try:
            self._observe(a, op, env)
            self._executor_rules(a, op, env)
        except Skip:
            self.stats["skipped"] += 1
            return
        if kind == "readd_reaction":
            ent = self.removed.get((ai, op.get("rid")))
            env.readd_spec = None
            if ent:
                # the metabolite objects travel with the reaction object: their current attributes are inputs of the call
                spec = {"x": ent[1]["x"], "mets": {}}
                for m in ent[0]._metabolites:
                    spec["mets"][m.id] = {"name": m.name, "formula": m.formula, "charge": m.charge, "compartment": m.compartment,
                                          "notes": S._plain(m.notes), "annotation": S._plain(m.annotation)}
                env.readd_spec = spec
        self.stats[f"op:{kind}"] += 1
        try:
            status = a.ref.apply(op, env)
        except KeyError:
            status = "unknown"
        raised = None
        try:
            with contextlib.redirect_stdout(_DEVNULL):
                ret = real(a, op, env)
        except Skip:
            a.ref = pre
            self.stats["skipped"] += 1
            self.stats[f"op:{kind}"] -= 1
            return
        except Violation:
            raise
        except Exception as e:  # the operation raised: a legal fault of a library
            raised = e
        if "fba" in self.oracles and kind in ("optimize", "slim_optimize"):
            if a.model.objective_direction != pre.direction:
                raise Violation("fba_direction", {"what": f"{kind} left the objective direction changed"
                                                  + (f" (it raised {type(raised).__name__})" if raised else ""),
                                                  "before": pre.direction, "after": a.model.objective_direction}, culprit=op)
            try:
                if kind == "optimize":
                    fba.judge_optimize(pre, op, None if raised else ret, raised, a.model, self.stats,
                                       "reduced_cost_factor_2" in self.quarantine)
                    if raised is None:
                        a.sols.append((ret, fba.frozen(ret)))
                        self.stats["probe:solution_kept"] += 1
                else:
                    fba.judge_slim(pre, op, None if raised else ret, raised, a.model, self.stats)
            except Violation as v:
                v.culprit = op
                raise
        if kind == "prune" and raised is None:
            a.ref = pre
            want = pre.clone()
            want.stack = []
            if op["what"] == "mets":
                gone = sorted(m for m in want.mets if not any(m in x["mets"] for x in want.rxns.values()))
                for m in gone:
                    want._remove_met_nd(m)
            else:
                gone = sorted(r for r, x in want.rxns.items() if not x["mets"])
                for r in gone:
                    want._remove_rxn(r)
            b = Actor(ret, want)
            bs = S.snap(ret)
            b.prev = bs
            if "ref_equal" in self.oracles:
                if env.pruned != gone:
                    raise Violation("ref_equal", {"what": "prune: returned list of removed objects", "got": env.pruned, "want": gone}, culprit=op)
                self._judge_content(b, bs, f"result of prune_unused_{op['what']}", op)
            self._invariants(b, bs, op)
            if len(self.actors) < 3:
                self.actors.append(b)
            self.stats["probe:prune_result_checked"] += 1
        if kind in LIFECYCLE and raised is None:
            self._new_actor(a, ret, op, pre)
            a.ref = pre
        if kind == "restart" and raised is None:
            # only durable state survives a restart: reaction objects removed earlier belonged to the discarded model (their metabolites
            # and genes are still owned by it) and are gone with it
            for key in [k_ for k_ in self.removed if k_[0] == ai]:
                self.removed.pop(key)
            a.ref = project_ref(pre, op["fmt"], self.quarantine)
            if pre.direction == "min" and a.ref.direction == "max":
                self.stats["quarantined:dict_direction_dropped"] += 1
        try:
            snap = S.snap(a.model)
        except Exception as e:
            # reading the model back fails (e.g. optlang's deferred update raises): C01 says the solver must hold the
            # model's problem after every operation; other properties end the run quietly
            if "lp_mirror" in self.oracles:
                raise Violation("lp_unreadable", {"what": f"after {kind} the solver problem cannot be brought up to date",
                                                  "exception": repr(e)[:300]}, culprit=op)
            self.stats["run_ended:model_unreadable"] += 1
            raise EndRun()
        if raised is not None:
            self.stats[f"op_failed:{kind}"] += 1
            self.stats[f"raised:{type(raised).__name__}"] += 1
            if status == "ok":
                self.stats["probe:raise_where_reference_succeeds"] += 1
                self.stats[f"unexpected_raise:{kind}:{type(raised).__name__}"] += 1
            if kind in ("exit", "exit_exc") and "ctx_restore" in self.oracles:
                raise Violation("ctx_exit_raises", {"exception": repr(raised)[:300]}, culprit=op)
            if status == "raises":
                # arguments the call is documented to refuse: refusing must not change anything
                a.ref = pre
                self.stats["probe:documented_refusal_compared"] += 1
                self._judge_content(a, snap, f"after {kind} refused its arguments ({type(raised).__name__})", op)
            a.ref = self._resync(a, pre, op)
            self.stats["judged_I"] += 1
        else:
            if kind in ("exit", "exit_exc"):
                self._judge_exit(a, snap, op)
                # restoration is judged against the enter-snapshot; the reference is the saved copy
                # for user LP objects and is resynchronised for content
                saved_user = a.ref.user
                a.ref = self._resync(a, a.ref, op)
                a.ref.user = saved_user
            elif kind == "helper":
                # helpers add LP objects and may replace the objective; the model content is unchanged
                self.stats["judged_P"] += 1
                keep, a.ref = a.ref, pre.clone(keep_stack=True)
                a.ref.obj = None
                a.ref.direction = snap["objective"]["direction"]
                self._judge_content(a, snap, f"after helper {op['name']}", op)
                a.ref = self._resync(a, pre, op)
            elif kind == "merge" and not op.get("inplace", True):
                merged = getattr(env, "merged", None)
                a.ref = pre
                self._judge_content(a, snap, "left model after merge(inplace=False)", op)
                if merged is not None:
                    tmp = Actor(merged, self._merged_ref(pre, op))
                    msnap = S.snap(merged)
                    if tmp.ref is not None:
                        self._judge_content(tmp, msnap, "result of merge(inplace=False)", op)
                        self._invariants(tmp, msnap, op)
            elif kind == "restart":
                self._judge_restart(a, op, snap, pre)
                user = a.ref.user
                a.ref = self._resync(a, a.ref, op)
                a.ref.user = user
            elif status == "ok":
                self.stats["judged_P"] += 1
                for rid in env.resync_rules:
                    if rid in a.ref.rxns and a.model.reactions.has_id(rid):
                        try:
                            a.ref.rxns[rid]["rule"] = gprtree.parse(a.model.reactions.get_by_id(rid).gene_reaction_rule)
                        except ValueError:
                            pass
                self._judge_content(a, snap, f"after {kind}", op)
                if env.expected_return is not None and "ref_equal" in self.oracles:
                    got = sorted(r.id for r in ret)
                    if got != env.expected_return:
                        raise Violation("ref_equal", {"what": f"return value of {kind}", "got": got,
                                                      "want": env.expected_return}, culprit=op)
            elif status == "raises":
                if "ref_equal" in self.oracles:
                    raise Violation("ref_equal", {"what": f"{kind} is documented to raise for these arguments but returned"},
                                    culprit=op)
                a.ref = self._resync(a, pre, op)
            else:
                self.stats["judged_I"] += 1
                a.ref = self._resync(a, pre, op)
        if kind == "enter" and raised is None:
            a.enter_snaps.append(snap)
        self._invariants(a, snap, op)
        if "isolation" in self.oracles:
            for b in self.actors:
                if (b is a and kind != "det_mutate") or b.prev is None:
                    continue
                now = S.snap(b.model)
                d = S.diff(b.prev, now)
                if d:
                    raise Violation("isolation", {"what": f"actor {self.actors.index(b)} changed by {kind} on actor {ai}",
                                                  "diff(before,after)": d[:8]}, culprit=op)
            for key, dv in self.detached.items():
                if key in env.__dict__.get("touched_detached", ()):
                    continue
                now = _det_snap(dv["obj"])
                if now != dv["snap"]:
                    raise Violation("isolation", {"what": f"detached object {key} changed by {kind}",
                                                  "before": dv["snap"], "after": now}, culprit=op)
        if "fba" in self.oracles:
            for b in self.actors:
                for sol, fz in b.sols[:-1] if (b is a and kind == "optimize" and raised is None) else b.sols:
                    ch = fba.frozen_changed(sol, fz)
                    if ch:
                        raise Violation("solution_frozen", {"what": f"a Solution returned earlier changed after {kind}", "fields": ch}, culprit=op)
        if a.prev is None or S.diff(a.prev, snap, limit=1):
            self.changed = True
        a.prev = snap
        return snap

    def _observe(self, a, op, env):
        kind = op["op"]
        m = a.model
        if kind == "add_boundary" and op.get("type") == "exchange":
            from cobra.medium import find_external_compartment

            try:
                env.observed["external"] = find_external_compartment(m)
            except Exception:
                env.observed["external"] = None
        elif kind == "medium":
            try:
                env.observed["exchanges"] = sorted(r.id for r in m.exchanges)
            except Exception:
                env.observed["exchanges"] = None
        elif kind == "set_objective":
            env.observed["rxn_order"] = [r.id for r in m.reactions]
        elif kind == "knock_out_model_genes":
            env.observed["gene_order"] = [g.id for g in m.genes]

    def _executor_rules(self, a, op, env):
        """Shapes that are never executed (kept here, not in the generator, so that shrinking
        cannot drift into them): see DESIGN Appendix A / H-01 / H-02."""
        kind = op["op"]
        ref = a.ref
        # H-02: a reaction referenced by a live user constraint is not removed/renamed away
        removed = set()
        if kind == "remove_reactions":
            removed = set(op["rs"])
        elif kind == "remove_metabolites" and op.get("destructive"):
            removed = {rid for rid, x in ref.rxns.items() if set(op["ms"]) & set(x["mets"])}
        elif kind == "remove_genes" and op.get("remove_reactions", True):
            gone = set(op["genes"])
            removed = {rid for rid, x in ref.rxns.items()
                       if x["rule"] is not None and not gprtree.remove(x["rule"], gone)[1]}
        if kind == "prune" and op.get("what") == "rxns":
            removed = {rid for rid, x in ref.rxns.items() if not x["mets"]}
        if any(ref.rxn_in_user_cons(r) for r in removed):
            raise Skip("reaction referenced by a user constraint")
        if kind == "remove_cons_vars":
            used = set()
            for n, u in ref.user.items():
                if u["kind"] == "con" and n not in op["names"]:
                    used |= set(u["coefs"])
            for row in ((a.prev or {}).get("lp") or {}).get("rows", {}).values():
                used |= set(row[2])
            if set(op["names"]) & used:
                raise Skip("variable referenced by a constraint (optlang drops it from the rows for good, H-02)")
            try:
                in_obj = {getattr(k, "name", None) for k, v in a.model.solver.objective.expression.as_coefficients_dict().items() if v != 0}
            except Exception:
                in_obj = set()
            if set(op["names"]) & in_obj:
                raise Skip("variable is part of the objective (optlang keeps stale terms of removed variables, H-02)")
        # bounds domain: lb in finite U {-inf}, ub in finite U {+inf} (a flux cannot be forced to +-inf)
        for spec in ([op] if kind == "set_bounds" else op.get("rxns", []) if kind == "add_reactions" else []):
            if spec.get("lb") == INF or spec.get("ub") == -INF:
                raise Skip("bound outside the domain")
        if kind == "remove_reactions" and op.get("own_list"):
            op["rs"] = sorted(ref.rxns)  # the model's own list is the argument: it names every reaction, whatever a shrunk trace says
        if kind == "restart" and op.get("fmt") == "sbml":
            if any(not m["compartment"] for m in ref.mets.values()):
                raise Skip("SBML requires every species to have a compartment")
            if any(not x["mets"] for x in ref.rxns.values()):
                raise Skip("SBML does not permit a reaction without reactants and products")
            if op.get("f_replace", "default") != "default":
                import re

                sid = re.compile(r"^[A-Za-z_][A-Za-z0-9_]*$")
                if not all(sid.match(i) for tbl in (ref.rxns, ref.mets, ref.genes, ref.groups) for i in tbl):
                    raise Skip("without id replacement only SBML SIds can be written")
                # SBML has one identifier namespace per model: without the R_/M_/G_ prefixes a reaction, a species, a gene product,
                # a group, a compartment or the model itself may not share an identifier (no writer could keep both ids)
                every = [i for tbl in (ref.rxns, ref.mets, ref.genes, ref.groups) for i in tbl]
                every += sorted({m["compartment"] for m in ref.mets.values()} | set(ref.comps))
                if ref.id:
                    every.append(ref.id)
                if len(set(every)) != len(every):
                    raise Skip("without id replacement identifiers must be unique across object kinds (one SBML namespace)")
        # known finding KF-03: undo entries are bound to the objects of the solver that was current when they were recorded
        if kind == "solver" and depth_now(a) > 0 and "solver_switch_in_context" in self.quarantine:
            self.stats["quarantined:solver_switch_in_context"] += 1
            raise Skip("quarantined")
        # known finding KF-04: identifiers whose reverse-variable name exceeds the solver's name limit
        if "id_over_solver_name_limit" in self.quarantine and Q.has_long_id(op):
            self.stats["quarantined:id_over_solver_name_limit"] += 1
            raise Skip("quarantined")
        # rename_genes: "undefined if a value matches a different key" (comment in the code)
        if kind == "rename_genes":
            mp = op["map"]
            if set(mp.values()) & set(mp):
                raise Skip("rename_genes with overlapping keys and values is documented as undefined")
        # known finding optlang-exact-clone: an unpickled / deep-copied glpk_exact solver holds
        # constraint objects of the glpk interface, which optlang refuses to add back
        if kind == "enter" and "optlang_exact_clone" in self.quarantine:
            iface = a.model.solver.interface.__name__
            if any(type(c).__module__ != iface for c in a.model.constraints):
                self.stats["quarantined:optlang_exact_clone"] += 1
                raise Skip("quarantined")
        # known finding optlang-dblmax: optlang reports +-DBL_MAX for the infinite bounds of a problem
        # restored from GLPK's file format; a solver switch would write that into the new problem
        if kind == "solver" and "optlang_dblmax" in self.quarantine:
            big = 1.7976931348623157e308
            if any(v.ub == big or v.lb == -big for v in a.model.variables):
                self.stats["quarantined:optlang_dblmax"] += 1
                raise Skip("quarantined")
        if kind == "remove_cons_vars" and depth_now(a) > 0 and "optlang_dblmax" in self.quarantine:
            big = 1.7976931348623157e308
            for n in op["names"]:
                if n in a.model.variables and (a.model.variables[n].ub == big or a.model.variables[n].lb == -big):
                    self.stats["quarantined:optlang_dblmax"] += 1
                    raise Skip("quarantined")  # the undo would write optlang's +-DBL_MAX into the problem
        # A.2: a detached reaction whose metabolite objects would be adopted by the model while
        # they still belong to the detached reaction is an undocumented argument shape
        if kind in ("iadd", "isub") and op.get("src") == "det":
            d = self.detached.get(op["r2"])
            if d is None or any(m.id not in ref.mets for m in d["obj"]._metabolites):
                raise Skip("detached operand with metabolites unknown to the model")
        # a helper applied to a problem that already holds its variables is a user error that optlang reports only at
        # its next update (duplicate names queued)
        if kind == "helper" and op.get("name") == "add_lp_feasibility" and any(n.startswith("s_plus_") for n in ref.user):
            raise Skip("add_lp_feasibility applied twice")
        # H-01: GLPK aborts the process when solving with an empty column present
        if kind in ("optimize", "slim_optimize", "helper"):
            if any(not r._metabolites for r in a.model.reactions):
                raise Skip("solve withheld: reaction without metabolites")

    def _resync(self, a, pre, op):
        user = pre.user
        if op["op"] in ("add_cons", "add_var", "remove_cons_vars", "helper", "merge"):
            user = observe_user(a.model)
        r = Ref.from_model(a.model, user=user, stack=pre.stack)
        return r

    def _merged_ref(self, pre, op):
        r = pre.clone()
        r.stack = []
        env = Env(self, None)
        st = r.t_merge(dict(op, inplace=True), env)
        if st != "ok":
            return None
        r.id = f"{pre.id}_{op['right']['id']}"
        return r

    def _judge_exit(self, a, snap, op):
        if not a.enter_snaps:
            return
        want = a.enter_snaps.pop()
        if self.prop == "C07":
            # knock-outs made inside a block are undone with it: gene states and reaction bounds are what they were on entry
            d = []
            for gid, g in want["content"]["genes"].items():
                g2 = snap["content"]["genes"].get(gid)
                if g2 is not None and g2["functional"] != g["functional"]:
                    d.append(f"gene {gid}: functional {g['functional']} on entry, {g2['functional']} after exit")
            for rid, r in want["content"]["reactions"].items():
                r2 = snap["content"]["reactions"].get(rid)
                if r2 is not None and (r2["lb"], r2["ub"]) != (r["lb"], r["ub"]):
                    d.append(f"reaction {rid}: bounds {(r['lb'], r['ub'])} on entry, {(r2['lb'], r2['ub'])} after exit")
            if d:
                raise Violation("knockout_restore", {"diff(enter,after_exit)": d[:8]}, culprit=op)
            self.stats["probe:context_exit_checked"] += 1
        if "ctx_restore" not in self.oracles:
            return
        w, g = S.without_order(want), S.without_order(snap)
        depth_w = w["cfg"]["depth"]
        w = dict(w, cfg=dict(w["cfg"], depth=0))
        depth_g = g["cfg"]["depth"]
        g = dict(g, cfg=dict(g["cfg"], depth=0))
        d = S.diff(w, g, rel=1e-9)
        if depth_g != depth_w - 1:
            d.append(f"context depth after exit {depth_g} != {depth_w - 1}")
        if d:
            raise Violation("ctx_restore", {"diff(enter,after_exit)": d[:8]}, culprit=op)
        self.stats["probe:context_exit_checked"] += 1

    def _new_actor(self, a, new_model, op, pre):
        b = Actor(new_model, pre.clone())
        b.ref.stack = []
        self.actors.append(b)
        snap = S.snap(new_model)
        b.prev = snap
        self.stats["probe:new_actor"] += 1
        if len(a.model._contexts) > 0:
            self.stats["probe:copy_inside_context"] += 1
        if "copy_equal" in self.oracles:
            src = S.snap(a.model)
            s1, s2 = copy.deepcopy(src), copy.deepcopy(snap)
            s1["cfg"]["depth"] = s2["cfg"]["depth"] = 0
            d = S.diff(s1, s2, rel=1e-12)  # copies go through GLPK's 15-significant-digit text format
            if new_model._contexts:
                d.append("copy has a non-empty context stack")
            ids = set()
            for lst in ("reactions", "metabolites", "genes", "groups"):
                for x, y in zip(getattr(a.model, lst), getattr(new_model, lst)):
                    if x is y:
                        d.append(f"{lst}: {x.id} is shared between original and copy")
                for y in getattr(new_model, lst):
                    if getattr(y, "_model", None) is not new_model:
                        d.append(f"{lst}: {y.id} of the copy does not point at the copy")
            if new_model.solver is a.model.solver:
                d.append("solver object shared")
            if d:
                raise Violation("copy_equal", {"diff(original,copy)": d[:8]}, culprit=op)
        if "ref_equal" in self.oracles:
            self._judge_content(b, snap, f"new model made by {op['op']}", op)
        self._invariants(b, snap, op)

    # ---- real operations --------------------------------------------------------------
    def do_set_bounds(self, a, op, env):
        r = self.rxn(a, op["r"])
        how = op["how"]
        if how == "bounds":
            r.bounds = (op["lb"], op["ub"])
        elif how == "lb":
            r.lower_bound = op["lb"]
        else:
            r.upper_bound = op["ub"]

    def do_knock_out_rxn(self, a, op, env):
        self.rxn(a, op["r"]).knock_out()

    def do_add_mets(self, a, op, env):
        r = self.rxn(a, op["r"])
        d = {self.metref(a, mr): c for mr, c in op["mets"]}
        try:
            r.add_metabolites(d, combine=op.get("combine", True))
        finally:
            self._reuse(op, d)

    def _reuse(self, op, d):
        """The argument stays in the caller's hands: the caller reuses it for something else afterwards."""
        if op.get("reuse"):
            self.stats["probe:argument_reused_by_caller"] += 1
            for k in list(d):
                d[k] = 97.0
            if op["reuse"] == "clear":
                d.clear()

    def do_sub_mets(self, a, op, env):
        r = self.rxn(a, op["r"])
        d = {self.metref(a, mr): c for mr, c in op["mets"]}
        try:
            r.subtract_metabolites(d, combine=op.get("combine", True))
        finally:
            self._reuse(op, d)

    def do_imul(self, a, op, env):
        r = self.rxn(a, op["r"])
        r *= op["k"]

    def _other(self, a, op):
        if op.get("src", "own") == "own":
            return self.rxn(a, op["r2"])
        if op.get("src") == "foreign":
            bi = op.get("actor2", -1)
            if not (0 <= bi < len(self.actors)) or self.actors[bi] is a:
                raise Skip("no foreign actor")
            o = self.rxn(self.actors[bi], op["r2"])
            self.stats["probe:operand_from_another_live_model"] += 1
            return o
        d = self.detached.get(op["r2"])
        if d is None:
            raise Skip("no detached object")
        return d["obj"]

    def do_iadd(self, a, op, env):
        r, o = self.rxn(a, op["r"]), self._other(a, op)
        r += o

    def do_isub(self, a, op, env):
        r, o = self.rxn(a, op["r"]), self._other(a, op)
        r -= o

    def do_set_rule(self, a, op, env):
        self.rxn(a, op["r"]).gene_reaction_rule = op["rule"]

    def do_set_gpr(self, a, op, env):
        from cobra.core.gene import GPR

        self.rxn(a, op["r"]).gpr = GPR.from_string(op["rule"])

    def do_rename_rxn(self, a, op, env):
        self.rxn(a, op["r"]).id = op["new"]

    def do_rename_met(self, a, op, env):
        self.met(a, op["m"]).id = op["new"]

    def do_set_attr(self, a, op, env):
        obj = {"rxn": self.rxn, "met": self.met, "gene": self.gene}[op["kind"]](a, op["id"])
        setattr(obj, op["attr"], op["value"])

    def do_edit_dict(self, a, op, env):
        obj = a.model if op["kind"] == "model" else {"rxn": self.rxn, "met": self.met, "gene": self.gene}[op["kind"]](a, op["id"])
        d = getattr(obj, op["which"])
        if op.get("nested"):
            # in-place edit of a nested mutable value: that is how annotations with several identifiers are extended
            cur = d.get(op["key"])
            if not isinstance(cur, list):
                raise Skip("no nested list value")
            cur.append(op["value"])
            self.stats["probe:nested_value_edited_in_place"] += 1
        else:
            d[op["key"]] = copy.deepcopy(op["value"])

    def do_add_metabolites(self, a, op, env):
        ms = [_mk_met(d) for d in op["mets"]]
        if op.get("twice"):
            ms = ms + ms[:1]  # the same new object listed twice
        try:
            a.model.add_metabolites(ms[0] if op.get("single") and len(ms) == 1 else ms)
        finally:
            stray = [x.id for x in ms if x._model is a.model and not any(x is y for y in a.model.metabolites)]
            if stray:
                raise Violation("xref", {"what": "a metabolite object that is not in the model points at the model after add_metabolites",
                                         "metabolites": stray}, culprit=op)

    def do_remove_metabolites(self, a, op, env):
        ms = [self.met(a, i) for i in op["ms"]]
        if op.get("foreign") and len(self.actors) > 1:
            # the same-named metabolite object of ANOTHER live model stands for this model's own one (as in remove_reactions);
            # whatever happens, the other model is not touched
            for j, i in enumerate(op["ms"]):
                others = [b for b in self.actors if b is not a and b.model.metabolites.has_id(i)]
                if others:
                    ms[j] = others[op["foreign"] % len(others)].model.metabolites.get_by_id(i)
                    self.stats["probe:remove_metabolites_given_another_models_object"] += 1
        if op.get("repeat"):
            ms = ms + ms[:1]  # the same metabolite listed twice: removed once
            self.stats["probe:remove_metabolites_repeated_entry"] += 1
        if op.get("via") == "met" and len(ms) == 1:
            ms[0].remove_from_model(destructive=op.get("destructive", False))
        else:
            a.model.remove_metabolites(ms[0] if op.get("single") and len(ms) == 1 else ms,
                                       destructive=op.get("destructive", False))

    def do_add_boundary(self, a, op, env):
        kw = {k2: op[k] for k, k2 in (("rid", "reaction_id"), ("lb", "lb"), ("ub", "ub"), ("sbo", "sbo_term"))
              if op.get(k) is not None}
        if op.get("new_met") and not a.model.metabolites.has_id(op["m"]):
            mt = _mk_met(dict(op["new_met"], id=op["m"]))
            self.stats["probe:add_boundary_for_a_metabolite_new_to_the_model"] += 1
            try:
                a.model.add_boundary(mt, type=op["type"], **kw)
            finally:
                if mt._model is a.model and not a.model.metabolites.has_id(mt.id):
                    raise Violation("xref", {"what": "a metabolite that add_boundary refused points at the model"}, culprit=op)
            return
        a.model.add_boundary(self.met(a, op["m"]), type=op["type"], **kw)

    def _mk_rxn(self, a, s):
        from cobra import Reaction

        r = Reaction(s["id"], name=s.get("name", ""), subsystem=s.get("subsystem", ""),
                     lower_bound=s["lb"], upper_bound=s["ub"])
        r.add_metabolites({self.metref(a, mr): c for mr, c in s["mets"]})
        if s.get("rule"):
            r.gene_reaction_rule = s["rule"]
        return r

    def do_add_reactions(self, a, op, env):
        rs = [self._mk_rxn(a, s) for s in op["rxns"]]
        how = op.get("container", "list")
        if how != "list":
            # the signature says Iterable[Reaction]: a tuple, or a one-shot iterator
            self.stats[f"probe:add_reactions_given_a_{how}"] += 1
            rs = tuple(rs) if how == "tuple" else (r for r in rs) if how == "generator" else iter(rs)
        a.model.add_reactions(rs)

    def do_remove_reactions(self, a, op, env):
        how = op.get("as", "obj")
        items = []
        for i, rid in enumerate(op["rs"]):
            if how == "id" or (how == "mixed" and i % 2):
                items.append(rid)
            else:
                items.append(self.rxn(a, rid))
        if op.get("bad_tail"):
            # an entry that is no reaction at all, after entries that are: the call raises part-way
            items.append({"none": None, "float": 7.5}[op["bad_tail"]])
        objs = {rid: a.model.reactions.get_by_id(rid) for rid in op["rs"] if a.model.reactions.has_id(rid)}
        specs = {rid: self._rxn_spec(env.pre, rid) for rid in objs if rid in env.pre.rxns}
        genes_before = list(a.model.genes)
        if op.get("via") == "rxn" and len(items) == 1 and not isinstance(items[0], str):
            items[0].remove_from_model(remove_orphans=op.get("remove_orphans", False))
        elif op.get("own_list"):
            # the model's own list is the argument (it shrinks while the reactions are removed): op["rs"] names all reactions
            a.model.remove_reactions(a.model.reactions, remove_orphans=op.get("remove_orphans", False))
            self.stats["probe:remove_reactions_given_the_models_own_list"] += 1
        else:
            a.model.remove_reactions(items, remove_orphans=op.get("remove_orphans", False))
        if not a.model._contexts:
            stray = [g.id for g in genes_before if g._model is a.model and not any(g is h for h in a.model.genes)]
            if stray:
                raise Violation("xref", {"what": "a gene removed as an orphan still points at the model", "genes": stray}, culprit=op)
        if not a.model._contexts and not op.get("bad_tail"):
            for rid, o in objs.items():
                if rid in specs:
                    self.removed[(self.actors.index(a), rid)] = (o, specs[rid])
        elif a.model._contexts:
            for rid, o in objs.items():
                if o.model is None:
                    self.ctx_removed[(self.actors.index(a), rid)] = o

    def do_ctx_removed_edit(self, a, op, env):
        """A reaction object that was removed inside the open context is edited while it is detached (no context is attached to it: the
        edit is permanent).  When the context is left the reaction comes back - with its current bounds, in the solver too."""
        key = (self.actors.index(a), op["rid"])
        obj = self.ctx_removed.get(key)
        if obj is None or obj.model is not None or not a.model._contexts or a.model.reactions.has_id(op["rid"]):
            self.ctx_removed.pop(key, None)
            raise Skip("no reaction object removed inside the open context")
        if not (op["lb"] <= -1500 and op["ub"] >= 1500):
            raise Skip("only widening edits (see the generator)")
        obj.bounds = (op["lb"], op["ub"])
        self.stats["probe:reaction_removed_in_context_edited_while_detached"] += 1

    def _rxn_spec(self, ref, rid):
        x = ref.rxns[rid]
        return {"x": copy.deepcopy(x), "mets": {m: copy.deepcopy(ref.mets[m]) for m in x["mets"] if m in ref.mets}}

    def do_readd_reaction(self, a, op, env):
        key = (self.actors.index(a), op["rid"])
        if key not in self.removed or a.model.reactions.has_id(op["rid"]) or a.model._contexts:
            raise Skip("no removed reaction object of that id")
        obj, spec = self.removed.pop(key)
        if any(m.id not in spec["mets"] for m in obj._metabolites):
            raise Skip("stale")
        self.stats["probe:removed_reaction_object_readded"] += 1
        a.model.add_reactions([obj])

    def do_removed_mutate(self, a, op, env):
        """The rule of a reaction object that was removed from the model is edited while it is detached: the model it came from
        (whose gene objects the reaction still knows) must not be affected."""
        key = (self.actors.index(a), op["rid"])
        ent = self.removed.get(key)
        if ent is None or ent[0].model is not None:
            raise Skip("no removed reaction object of that id")
        obj, spec = ent
        if op.get("how") == "rename":
            # the detached object gets a new identifier (it has no model: nothing but the object changes); it is registered under
            # the new identifier and may come back into the model under it
            new = op["new"]
            if a.model.reactions.has_id(new) or (self.actors.index(a), new) in self.removed:
                raise Skip("identifier in use")
            obj.id = new
            self.removed[(self.actors.index(a), new)] = self.removed.pop(key)
            self.stats["probe:removed_reaction_object_renamed"] += 1
            return
        if op.get("how") == "cancel":
            # a metabolite of the removed reaction is cancelled out (the model's metabolites do not list this reaction any more)
            mets = sorted(obj._metabolites, key=lambda m: m.id)
            if not mets:
                raise Skip("empty")
            mt = mets[op.get("j", 0) % len(mets)]
            try:
                obj.subtract_metabolites({mt: obj._metabolites[mt]})
            except Exception as e:
                raise Violation("unexpected_exception", {"what": "cancelling a metabolite of a removed reaction object raises",
                                                         "exception": repr(e)[:200]}, culprit=op)
            if any(c == 0 for c in obj._metabolites.values()) or mt in obj._metabolites:
                raise Violation("xref", {"what": "a cancelled metabolite stays in the removed reaction object"}, culprit=op)
            spec["x"]["mets"].pop(mt.id, None)
            self.stats["probe:removed_reaction_object_metabolite_cancelled"] += 1
            return
        obj.gene_reaction_rule = op["rule"]
        try:
            spec["x"]["rule"] = gprtree.parse(obj.gene_reaction_rule)
        except ValueError:
            self.removed.pop(key)
        self.stats["probe:removed_reaction_object_rule_edited"] += 1

    def do_set_objective(self, a, op, env):
        how, items = op["how"], op["items"]
        m = a.model
        if how == "id":
            m.objective = items[0]
        elif how == "rxn":
            m.objective = self.rxn(a, items[0])
        elif how == "index":
            m.objective = items[0]
        elif how == "list":
            m.objective = list(items)
        elif how == "expr":  # a symbolic expression over flux expressions
            expr = 0
            for rid, c in items:
                expr = expr + c * self.rxn(a, rid).flux_expression
            m.objective = expr
        elif how == "optlang":  # a ready-made optlang objective with its own direction
            expr = 0
            for rid, c in items:
                expr = expr + c * self.rxn(a, rid).flux_expression
            m.objective = m.problem.Objective(expr, direction=op.get("dir", "max"))
        else:
            d = {}
            for rid, c in items:
                if isinstance(rid, str) and rid.startswith("det:"):
                    det = self.detached.get(rid[4:])
                    if det is None:
                        raise Skip("no detached reaction")
                    d[det["obj"]] = c  # a reaction that is not in the model: the call fails part-way
                elif op.get("foreign_keys") and len(self.actors) > 1:
                    # the reaction object of ANOTHER live model (the original of this copy, say) stands for this model's reaction
                    # of the same id - never for whatever reaction happens to have the same column number here
                    others = [b for b in self.actors if b is not a and b.model.reactions.has_id(rid)]
                    if others:
                        d[others[op["foreign_keys"] % len(others)].model.reactions.get_by_id(rid)] = c
                        self.stats["probe:objective_dict_keyed_by_foreign_reaction"] += 1
                    else:
                        d[self.rxn(a, rid)] = c
                else:
                    d[self.rxn(a, rid)] = c
            m.objective = d

    def do_set_direction(self, a, op, env):
        a.model.objective_direction = op["dir"]

    def do_set_obj_coef(self, a, op, env):
        self.rxn(a, op["r"]).objective_coefficient = op["v"]

    def do_add_cons(self, a, op, env):
        m = a.model
        expr = 0
        for rid, c in op["expr"]:
            expr = expr + c * self.rxn(a, rid).flux_expression
        for vn, c in op.get("vars", []):
            if vn not in m.variables:
                raise Skip("no variable")
            expr = expr + c * m.variables[vn]
        if op["name"] in m.constraints or op["name"] in m.variables:
            raise Skip("name in use")
        m.add_cons_vars([m.problem.Constraint(expr, lb=op.get("lb"), ub=op.get("ub"), name=op["name"])])

    def do_add_var(self, a, op, env):
        m = a.model
        if op["name"] in m.constraints or op["name"] in m.variables:
            raise Skip("name in use")
        m.add_cons_vars([m.problem.Variable(op["name"], lb=op.get("lb"), ub=op.get("ub"))])

    def do_remove_cons_vars(self, a, op, env):
        m = a.model
        objs = []
        for n in op["names"]:
            if n in env.pre.user and env.pre.user[n]["kind"] == "con" and n in m.constraints:
                objs.append(m.constraints[n])
            elif n in env.pre.user and n in m.variables:
                objs.append(m.variables[n])
            else:
                raise Skip("no such user object")
        m.remove_cons_vars(objs)

    def do_knock_out_gene(self, a, op, env):
        self.gene(a, op["g"]).knock_out()

    def do_set_functional(self, a, op, env):
        self.gene(a, op["g"]).functional = op["v"]

    def do_knock_out_model_genes(self, a, op, env):
        from cobra.manipulation import knock_out_model_genes

        how = op.get("as", "id")
        from cobra import Gene

        items = [(self.gene(a, g) if a.model.genes.has_id(g) else Gene(g)) if (how == "obj" and isinstance(g, str)) else g
                 for g in op["genes"]]
        if op.get("src") == "foreign":
            # gene objects of ANOTHER live model (e.g. the original of this copy): they name genes, they are not acted upon
            bi = op.get("actor2", -1)
            if not (0 <= bi < len(self.actors)) or self.actors[bi] is a:
                raise Skip("no foreign actor")
            b = self.actors[bi]
            items = [b.model.genes.get_by_id(g) if isinstance(g, str) and b.model.genes.has_id(g) else g for g in op["genes"]]
            self.stats["probe:operand_from_another_live_model"] += 1
        if op.get("list_key") and op.get("src") != "foreign":
            # the caller keeps ONE list object (of ids or positions) and passes it to several calls, also on other models
            store = self.__dict__.setdefault("caller_lists", {})
            if op["list_key"] in store:
                items = store[op["list_key"]]
                self.stats["probe:argument_list_reused_across_calls"] += 1
            else:
                store[op["list_key"]] = items
        return knock_out_model_genes(a.model, items)

    def do_remove_genes(self, a, op, env):
        from cobra.manipulation import remove_genes

        how = op.get("as", "id")
        items = [self.gene(a, g) if how == "obj" else g for g in op["genes"]]
        for g in op["genes"]:
            self.gene(a, g)
        remove_genes(a.model, items, remove_reactions=op.get("remove_reactions", True))

    def do_rename_genes(self, a, op, env):
        from cobra.manipulation import rename_genes

        rename_genes(a.model, dict(op["map"]))

    def do_medium(self, a, op, env):
        a.model.medium = dict(op["medium"])

    def do_build_from_string(self, a, op, env):
        def side(items):
            return " + ".join((f"{n} {m}" if n is not None else m) for m, n in items)

        s = f"{side(op['left'])} {op['arrow']} {side(op['right'])}"
        if op.get("bad_term"):
            s = s + (" + " if op["right"] else " ") + op["bad_term"]  # a term the parser cannot read, after terms it can
            self.stats["probe:equation_with_malformed_last_term"] += 1
        r = self.rxn(a, op["r"])
        if op.get("via") == "setter":
            r.reaction = s
        else:
            r.build_reaction_from_string(s, verbose=False)

    def do_optimize(self, a, op, env):
        kw = {}
        if op.get("sense"):
            kw["objective_sense"] = op["sense"]
        if op.get("raise_error"):
            kw["raise_error"] = True
        sol = a.model.optimize(**kw)
        return sol

    def do_slim_optimize(self, a, op, env):
        kw = {}
        if op.get("open_first") and a.model.reactions.has_id(op["open_first"]) and not a.model._contexts:
            r = a.model.reactions.get_by_id(op["open_first"])
            r.bounds = (r.lower_bound, INF) if a.ref.direction == "max" else (-INF, r.upper_bound)
            x = a.ref.rxns[op["open_first"]]
            x["lb"], x["ub"] = r.lower_bound, r.upper_bound
            env.pre.rxns[op["open_first"]]["lb"], env.pre.rxns[op["open_first"]]["ub"] = r.lower_bound, r.upper_bound
        if "error_value" in op:
            kw["error_value"] = op["error_value"]
        return a.model.slim_optimize(**kw)

    def do_repair(self, a, op, env):
        a.model.repair()

    def do_solver(self, a, op, env):
        a.model.solver = op["name"]

    def do_tolerance(self, a, op, env):
        a.model.tolerance = op["value"]

    def do_config_bounds(self, a, op, env):
        from cobra.core.configuration import Configuration

        Configuration().bounds = tuple(op["value"])
        self.stats["probe:global_default_bounds_changed"] += 1

    def do_compartments(self, a, op, env):
        a.model.compartments = dict(op["value"])

    def do_add_groups(self, a, op, env):
        from cobra.core import Group

        gs = []
        for g in op["groups"]:
            members = [{"Reaction": self.rxn, "Metabolite": self.met, "Gene": self.gene}[t](a, i)
                       for t, i in g["members"]]
            gs.append(Group(g["id"], name=g.get("name", ""), members=members, kind=g.get("kind", "collection")))
        a.model.add_groups(gs)

    def do_group_edit(self, a, op, env):
        if not a.model.groups.has_id(op["gid"]):
            raise Skip("no group")
        g = a.model.groups.get_by_id(op["gid"])
        how = op["how"]
        if how in ("add", "remove"):
            members = [{"Reaction": self.rxn, "Metabolite": self.met, "Gene": self.gene}[t](a, i) for t, i in op["members"]]
            (g.add_members if how == "add" else g.remove_members)(members)
        elif how == "kind":
            g.kind = op["value"]
        else:
            g.name = op["value"]

    def do_remove_groups(self, a, op, env):
        items = []
        for gid in op["ids"]:
            if not a.model.groups.has_id(gid):
                raise Skip("no group")
            items.append(a.model.groups.get_by_id(gid))
        if op.get("as") == "id":
            try:
                a.model.remove_groups(op["ids"][0])  # "a string representing group id" (docstring)
            except (AttributeError, TypeError) as e:
                raise Violation("unexpected_exception", {"what": "remove_groups(<group id>) - documented - raises", "exception": repr(e)[:200]}, culprit=op)
            self.stats["probe:remove_groups_by_id_string"] += 1
        else:
            a.model.remove_groups(items)

    def do_enter(self, a, op, env):
        a.model.__enter__()
        self.stats["probe:context_enter"] += 1
        if len(a.model._contexts) >= 2:
            self.stats["probe:nested_context"] += 1

    def do_exit(self, a, op, env):
        n = sum(c.size() for c in a.model._contexts[-1:])
        if n >= 10:
            self.stats["probe:exit_replays_10+_undo_entries"] += 1
        a.model.__exit__(None, None, None)

    def do_exit_exc(self, a, op, env):
        e = ValueError("simulated failure inside the block")
        a.model.__exit__(ValueError, e, None)

    def do_prune(self, a, op, env):
        from cobra.manipulation import prune_unused_metabolites, prune_unused_reactions

        fn = prune_unused_metabolites if op["what"] == "mets" else prune_unused_reactions
        new, removed = fn(a.model)
        if new is a.model:
            raise Violation("isolation", {"what": f"prune_unused_{'metabolites' if op['what'] == 'mets' else 'reactions'} returned the input "
                                                  "model itself instead of a new model"}, culprit=op)
        env.pruned = sorted(x.id for x in removed)
        return new

    def do_copy(self, a, op, env):
        return a.model.copy()

    def do_deepcopy(self, a, op, env):
        return copy.deepcopy(a.model)

    def do_pickle(self, a, op, env):
        proto = op.get("proto", pickle.HIGHEST_PROTOCOL)
        rid = op.get("via_reaction")
        if rid is not None and a.model.reactions.has_id(rid):
            # a reaction that belongs to the model is the root of the pickle: the whole model travels with it and is the
            # unpickled reaction's model - a copy like any other
            clone = pickle.loads(pickle.dumps(a.model.reactions.get_by_id(rid), protocol=proto))
            self.stats["probe:pickle_rooted_at_member_reaction"] += 1
            if clone.model is None or not clone.model.reactions.has_id(rid) or clone.model.reactions.get_by_id(rid) is not clone:
                raise Violation("xref", {"what": "the unpickled reaction is not found under its identifier in its own model",
                                         "reaction": rid, "index": repr(getattr(clone.model, "reactions", None) and clone.model.reactions._dict)[:200]},
                                culprit=op)
            return clone.model
        return pickle.loads(pickle.dumps(a.model, protocol=proto))

    # ---- restart through a durable format (C10/C11): save, lose the live object, load ----
    def _save_load(self, model, op, tag):
        import cobra.io as cio
        from cobra.core.configuration import Configuration

        fmt, variant = op["fmt"], op.get("variant", "string")
        cfg = Configuration()
        cfg.bounds = tuple(op.get("Gw", (-1000.0, 1000.0)))
        sort = bool(op.get("sort"))
        path = os.path.join(seams._state["tmp"] or "/tmp", f"restart-{tag}.{fmt}")
        data = None
        if fmt == "pickle":
            data = pickle.dumps(model, protocol=op.get("proto", pickle.HIGHEST_PROTOCOL))
        elif fmt == "dict":
            data = cio.model_to_dict(model, sort=sort)
            if variant != "string":
                data = copy.deepcopy(data)
        elif fmt in ("json", "yaml"):
            to_s = {"json": cio.to_json, "yaml": cio.to_yaml}[fmt]
            save = {"json": cio.save_json_model, "yaml": cio.save_yaml_model}[fmt]
            kw = {"pretty": True} if (fmt == "json" and op.get("pretty") and variant != "string") else {}
            if variant == "string":
                data = to_s(model, sort=sort)
            elif variant == "path":
                save(model, path if op.get("strpath", True) else pathlib.Path(path), sort=sort, **kw)
            else:
                with open(path, "w") as fh:
                    save(model, fh, sort=sort, **kw)
        elif fmt == "sbml":
            kw = {} if op.get("f_replace", "default") == "default" else {"f_replace": {}}
            if variant == "string":
                sio = io.StringIO()
                cio.write_sbml_model(model, sio, **kw)
                data = sio.getvalue()
            elif variant == "path":
                cio.write_sbml_model(model, path if op.get("strpath", True) else pathlib.Path(path), **kw)
            else:
                with open(path, "w") as fh:
                    cio.write_sbml_model(model, fh, **kw)
        else:
            raise Skip(fmt)
        saved = {"data": data, "path": path}
        # ---- the writing process is gone; the reading process has its own configuration ----
        cfg.bounds = tuple(op.get("Gr", (-1000.0, 1000.0)))
        return saved

    def _load(self, saved, op):
        import cobra.io as cio

        fmt, variant = op["fmt"], op.get("variant", "string")
        data, path = saved["data"], saved["path"]
        if fmt == "pickle":
            return pickle.loads(data)
        if fmt == "dict":
            return cio.model_from_dict(data)
        if fmt in ("json", "yaml"):
            from_s = {"json": cio.from_json, "yaml": cio.from_yaml}[fmt]
            load = {"json": cio.load_json_model, "yaml": cio.load_yaml_model}[fmt]
            if variant == "string":
                return from_s(data)
            if variant == "path":
                return load(path if op.get("strpath", True) else pathlib.Path(path))
            with open(path) as fh:
                return load(fh)
        if fmt == "sbml":
            kw = {} if op.get("f_replace", "default") == "default" else {"f_replace": {}}
            if variant == "string":
                return cio.read_sbml_model(data, **kw) if not op.get("sio") else cio.read_sbml_model(io.StringIO(data), **kw)
            if variant == "path":
                return cio.read_sbml_model(path if op.get("strpath", True) else pathlib.Path(path), **kw)
            with open(path) as fh:
                return cio.read_sbml_model(fh, **kw)
        raise Skip(fmt)

    def do_restart(self, a, op, env):
        saved = self._save_load(a.model, op, "1")  # a failing save is an ordinary failing operation
        try:
            if op.get("twice"):
                # what was saved is read once before (by someone else): reading must not use it up
                self._load(saved, op)
                self.stats["probe:restart_saved_state_read_twice"] += 1
            new = self._load(saved, op)
        except Exception as e:
            if "restart_equal" in self.oracles:
                raise Violation("restart_load_fails", {"what": f"a model that could be saved as {op['fmt']} cannot be loaded",
                                                       "exception": repr(e)[:300]}, culprit=op)
            raise
        if op["fmt"] == "sbml" and "restart_equal" in self.oracles:
            self._validate_sbml(saved, op)
        a.model = new
        a.enter_snaps = []
        a.sols = []
        env.restarted = True
        self.stats[f"probe:restart_{op['fmt']}"] += 1
        self.stats[f"probe:restart_variant_{op.get('variant', 'string')}"] += 1
        if tuple(op.get("Gw", (-1000.0, 1000.0))) != tuple(op.get("Gr", (-1000.0, 1000.0))):
            self.stats["probe:restart_config_skew"] += 1
        return new

    def _validate_sbml(self, saved, op):
        from cobra.io import validate_sbml_model

        src = saved["data"] if saved["data"] is not None else saved["path"]
        if saved["data"] is not None:
            src = io.StringIO(saved["data"])
        _, errors = validate_sbml_model(src, check_modeling_practice=False)
        bad = {k: v[:3] for k, v in errors.items() if k in ("SBML_FATAL", "SBML_ERROR", "SBML_SCHEMA_ERROR", "COBRA_FATAL", "COBRA_ERROR") and v}
        if bad:
            raise Violation("sbml_invalid", {"what": "the SBML validator rejects the written document", "errors": repr(bad)[:600]}, culprit=op)

    def _judge_restart(self, a, op, snap, pre):
        """restart_equal: loaded model == projection of the reference; a second round trip is a fixpoint."""
        if "restart_equal" not in self.oracles:
            return
        fmt = op["fmt"]
        want = project_observed(a.ref.content(), fmt)
        got = project_observed(copy.deepcopy(snap["content"]), fmt)
        if a.ref.obj is None:  # objective set by a helper: not reaction-style, nothing documented to compare with
            for rid in got["reactions"]:
                if rid in want["reactions"]:
                    want["reactions"][rid]["obj"] = got["reactions"][rid]["obj"]
        d = S.diff(got, want)
        empty_obj = fmt == "sbml" and not a.ref.obj  # no objective is written then; the direction has no meaning
        if not d and a.ref.direction != snap["objective"]["direction"] and not empty_obj:
            d = [f"/direction: {snap['objective']['direction']} != {a.ref.direction}"]
        if d:
            raise Violation("restart_equal", {"what": f"model loaded from {fmt} differs from what was saved",
                                              "diff(loaded,saved)": d[:8]}, culprit=op)
        p = S.lp_mirror_problems(a.model, a.ref.user, snap.get("lp"))
        if p:
            raise Violation("restart_equal", {"what": f"solver problem of the model loaded from {fmt}", "problems": p[:6]}, culprit=op)
        x = S.xref_problems(a.model)
        if x:
            raise Violation("restart_equal", {"what": f"cross-references of the model loaded from {fmt}", "problems": x[:6]}, culprit=op)
        # second round trip under the reader's configuration: nothing further may change
        op2 = dict(op, Gw=op.get("Gr", (-1000.0, 1000.0)))
        try:
            saved = self._save_load(a.model, op2, "2")
            again = self._load(saved, op2)
        except Exception as e:
            raise Violation("restart_fixpoint", {"what": f"second {fmt} round trip raises", "exception": repr(e)[:300]}, culprit=op)
        s2 = S.snap(again)
        d = S.diff(S.without_order(snap), S.without_order(s2))
        if d:
            raise Violation("restart_fixpoint", {"what": f"a second {fmt} round trip changes the model", "diff(first,second)": d[:8]}, culprit=op)
        self.stats["probe:restart_fixpoint_checked"] += 1

    def do_helper(self, a, op, env):
        from cobra.flux_analysis.moma import add_moma
        from cobra.flux_analysis.parsimonious import add_pfba
        from cobra.util.solver import add_lp_feasibility, fix_objective_as_constraint

        n = op["name"]
        self.stats[f"helper:{n}"] += 1
        if n == "add_pfba":
            add_pfba(a.model, fraction_of_optimum=op.get("fraction", 1.0))
        elif n == "add_moma":
            add_moma(a.model, linear=True)
        elif n == "fix_objective":
            fix_objective_as_constraint(a.model, fraction=op.get("fraction", 1.0))
        elif n == "add_lp_feasibility":
            add_lp_feasibility(a.model)
        else:
            raise Skip(n)

    def do_merge(self, a, op, env):
        right = build_model(op["right"])
        res = a.model.merge(right, prefix_existing=op.get("prefix"), inplace=op.get("inplace", True),
                            objective=op.get("objective", "left"))
        if op.get("inplace", True):
            if res is not a.model:
                raise Violation("ref_equal", {"what": "merge(inplace=True) did not return the model itself"}, culprit=op)
        else:
            if res is a.model:
                raise Violation("isolation", {"what": "merge(inplace=False) returned the left model"}, culprit=op)
            env.merged = res
        # the right model must not be touched
        want = S.snap(build_model(op["right"]))
        got = S.snap(right)
        d = S.diff(want, got)
        if d and ("isolation" in self.oracles or "ref_equal" in self.oracles):
            raise Violation("isolation", {"what": "merge changed the right-hand model", "diff": d[:6]}, culprit=op)
        return res

    def do_rxn_copy(self, a, op, env):
        if op.get("src") == "removed":
            ent = self.removed.get((self.actors.index(a), op["r"]))
            if ent is None:
                raise Skip("no removed reaction object")
            # the removed reaction still holds metabolite and gene objects, some of which belong to the model and some (orphans
            # removed with it, or removed later) to no model: copying or doing arithmetic with it must leave every one of them
            # with the owner it had
            src = ent[0]
            owners = [(x, x._model) for x in list(src._metabolites) + list(src._genes)]
            how = op.get("how", "copy")
            c = src.copy() if how == "copy" else src * 2 if how == "mul" else src + src if how == "add" else src - src
            changed = [f"{type(x).__name__} {x.id}: model {getattr(m0, 'id', None)!r} -> {getattr(x._model, 'id', None)!r}"
                       for x, m0 in owners if x._model is not m0]
            if changed:
                raise Violation("isolation", {"what": f"Reaction {how} on a removed reaction changed the owner of the operand's own objects",
                                              "changed": changed[:4]}, culprit=op)
            if len({id(m0) for _, m0 in owners}) > 1:
                self.stats["probe:removed_reaction_with_mixed_ownership_copied"] += 1
            if how == "copy":
                self._detach(op["key"], c, copy.deepcopy(ent[1]["x"]))
            self.stats["probe:removed_reaction_object_copied"] += 1
            return
        r = self.rxn(a, op["r"])
        c = r.copy()
        self._detach(op["key"], c, a.ref.rxns[op["r"]])
        if c.model is not None or any(m.model is not None for m in c.metabolites):
            raise Violation("isolation", {"what": "Reaction.copy() result is attached to a model"}, culprit=op)

    def do_rxn_arith(self, a, op, env):
        r = self.rxn(a, op["r"])
        if op.get("poison"):
            # the deep copy inside Reaction.copy / Metabolite.copy fails (a value that cannot be copied): the operand, its metabolites
            # and genes stay what and where they were
            holder = r
            if op["poison"] == "met" and r._metabolites:
                holder = sorted(r._metabolites, key=lambda m: m.id)[0]
            holder.notes["__uncopyable__"] = (i for i in range(2))
            try:
                for fn in ((lambda: holder.copy()), (lambda: r.copy() if op["f"] in ("+0", "0+", "sum1") else r * 2)):
                    try:
                        fn()
                    except TypeError:
                        self.stats["probe:reaction_copy_failed_half_way"] += 1
            finally:
                holder.notes.pop("__uncopyable__", None)
            return
        if op["f"] == "*":
            c = r * op["k"]
            pred = copy.deepcopy(a.ref.rxns[op["r"]])
            pred["mets"] = {m: v * op["k"] for m, v in pred["mets"].items()}
            if op["k"] < 0:
                pred["lb"], pred["ub"] = -pred["ub"], -pred["lb"]
        elif op["f"] in ("+0", "0+", "sum1"):
            c = r + 0 if op["f"] == "+0" else 0 + r if op["f"] == "0+" else sum([r])
            pred = copy.deepcopy(a.ref.rxns[op["r"]])
        else:
            o = self.rxn(a, op["r2"])
            c = r + o if op["f"] == "+" else r - o
            pred = None
        if c is r or c.model is not None or any(m.model is not None for m in c.metabolites):
            raise Violation("isolation", {"what": f"reaction arithmetic '{op['f']}' returned an object that is attached to the model"}, culprit=op)
        self._detach(op["key"], c, pred)

    def do_det_mutate(self, a, op, env):
        d = self.detached.get(op["key"])
        if d is None:
            raise Skip("no detached object")
        r = d["obj"]
        how = op["how"]
        if how == "bounds":
            r.bounds = (op["lb"], op["ub"])
        elif how == "imul":
            r *= op["k"]
        elif how == "rule":
            r.gene_reaction_rule = op["rule"]
        elif how == "id":
            r.id = op["new"]
        elif how == "coeff":
            mets = sorted(r._metabolites, key=lambda m: m.id)
            if not mets:
                raise Skip("empty")
            r.add_metabolites({mets[0]: op["c"]})
        elif how == "met_attr":
            mets = sorted(r._metabolites, key=lambda m: m.id)
            if not mets:
                raise Skip("empty")
            mets[0].name = op["value"]
            mets[0].annotation["k1"] = op["value"]
        d["snap"] = _det_snap(r)
        try:
            tree = gprtree.parse(r.gene_reaction_rule)
        except ValueError:
            tree = None
        # the detached object is an *input* of later operations: its reference is re-read from the object
        d["ref"] = {"lb": r.lower_bound, "ub": r.upper_bound, "mets": {m.id: c for m, c in r._metabolites.items()}, "rule": tree,
                    "name": r.name, "subsystem": r.subsystem, "notes": {}, "annotation": {}}
        env.touched_detached = {op["key"]}
        self.stats["probe:detached_object_mutated"] += 1

    def _detach(self, key, obj, refd):
        self.detached[key] = {"obj": obj, "ref": copy.deepcopy(refd), "snap": _det_snap(obj)}
        self.stats["probe:detached_object"] += 1


def project_ref(ref, fmt, quarantine=()):
    """What a format promises to carry (C10/C11); everything else is reset to what a fresh load gives."""
    r = ref.clone()
    r.stack = []
    if fmt == "pickle":
        return r
    r.user = {}
    for g in r.genes.values():
        g["functional"] = True
    if fmt in ("dict", "json", "yaml"):
        r.groups = {}
        r.comps = {}
        for k, m in r.mets.items():
            if m["compartment"] is None:
                m["compartment"] = ""
        cont = ref.content()["compartments"]
        r.comps = dict(cont)
        if "dict_direction_dropped" in quarantine:
            r.direction = "max"  # known finding F-09, matched by its precise signature
    return r


def _ann_norm(ann):
    """An annotation is a set of (provider, identifier) pairs: a scalar and a one-element list are
    the same annotation (cobrapy's reader returns a scalar for a single identifier)."""
    out = {}
    for k, v in (ann or {}).items():
        out[k] = sorted(v) if isinstance(v, list) else [v]
    return out


def project_observed(content, fmt, want=None):
    """Normalise content (observed or expected) in the places a format does not promise."""
    if fmt != "sbml":
        return content
    for tbl in ("reactions", "metabolites", "genes"):
        for oid, x in content[tbl].items():
            x["annotation"] = _ann_norm(x.get("annotation"))
            if isinstance(x.get("name"), str):
                x["name"] = x["name"].strip()  # C10's domain: names without surrounding blanks
            if tbl == "metabolites" and not x.get("formula"):
                x["formula"] = None  # '' and None both mean "no formula"
            if tbl == "reactions":
                x["subsystem"] = ""  # carried only through groups; not in C10's list
    content["annotation"] = _ann_norm(content.get("annotation"))
    return content


def _det_snap(r):
    return {"id": r.id, "lb": S._num(r.lower_bound), "ub": S._num(r.upper_bound),
            "mets": dict(sorted((m.id, S._num(c)) for m, c in r._metabolites.items())),
            "rule": r.gene_reaction_rule, "model": None if r.model is None else r.model.id,
            "name": r.name}


def observe_user(model):
    """User-added LP objects = everything in the raw problem that is not a reaction column or a
    metabolite row (used only to resynchronise after operations judged as I)."""
    lp = S.read_glpk(model)
    rn = set()
    for r in model.reactions:
        rn.add(r.id)
        rn.add(r.reverse_id)
    mn = {m.id for m in model.metabolites}
    user = {}
    for n, c in lp["cols"].items():
        if n not in rn:
            user[n] = {"kind": "var", "lb": S._inf(c[0]), "ub": S._inf(c[1]), "coefs": {},
                       "met_rows": {m: r[2][n] for m, r in lp["rows"].items() if m in mn and n in r[2]}}
    for n, r in lp["rows"].items():
        if n not in mn:
            user[n] = {"kind": "con", "lb": S._inf(r[0]), "ub": S._inf(r[1]), "coefs": dict(r[2])}
    return user


# ------------------------------------------------------------------------------------------
# oracle selection per property

ORACLES = {
    "C01": {"lp_mirror"},
    "C02": {"ref_equal", "xref"},
    "C03": {"ctx_restore"},
    "C07": {"ref_equal"},
    "C12": {"copy_equal", "isolation"},
    "C04": {"fba"},
    "C11": {"restart_equal"},
    "C10": {"restart_equal"},
}

# ------------------------------------------------------------------------------------------
# generation

ALL_KINDS = {
    "set_bounds": 6, "knock_out_rxn": 2, "add_mets": 5, "sub_mets": 2, "imul": 2, "iadd": 2, "isub": 1,
    "set_rule": 4, "set_gpr": 1, "rename_rxn": 2, "rename_met": 2, "set_attr": 2, "add_metabolites": 2,
    "remove_metabolites": 3, "add_boundary": 3, "add_reactions": 4, "remove_reactions": 4,
    "set_objective": 3, "set_direction": 2, "set_obj_coef": 2, "add_cons": 2, "add_var": 1,
    "remove_cons_vars": 1, "knock_out_gene": 3, "set_functional": 1, "knock_out_model_genes": 2,
    "remove_genes": 2, "rename_genes": 1, "medium": 2, "build_from_string": 1, "optimize": 2,
    "slim_optimize": 2, "repair": 1, "solver": 1, "tolerance": 1, "compartments": 1, "add_groups": 1,
    "remove_groups": 1, "enter": 0, "exit": 0, "exit_exc": 0, "copy": 0, "deepcopy": 0, "pickle": 0,
    "rxn_copy": 1, "rxn_arith": 1, "edit_dict": 1, "restart": 0, "helper": 1, "merge": 1, "readd_reaction": 3, "det_mutate": 1, "prune": 1, "config_bounds": 1, "group_edit": 1, "removed_mutate": 1, "ctx_removed_edit": 0,
}

PROP_BIAS = {
    "C01": {"ctx_removed_edit": 3, "removed_mutate": 2, "helper": 2, "merge": 2, "solver": 3, "copy": 1, "pickle": 1, "deepcopy": 1, "enter": 2, "exit": 3, "exit_exc": 1},
    "C02": {},
    "C03": {"enter": 6, "exit": 6, "exit_exc": 2, "helper": 3, "merge": 2, "rename_rxn": 0, "rename_met": 0, "repair": 1, "solver": 0,
            "tolerance": 0, "compartments": 0, "add_groups": 0, "remove_groups": 0, "set_attr": 0,
            "edit_dict": 0},
    "C07": {"knock_out_gene": 12, "knock_out_model_genes": 8, "knock_out_rxn": 4, "set_functional": 4,
            "set_rule": 6, "enter": 2, "exit": 3, "removed_mutate": 3, "remove_reactions": 4, "copy": 1, "pickle": 1, "deepcopy": 1},
    "C04": {"ctx_removed_edit": 3, "optimize": 14, "slim_optimize": 8, "solver": 2, "set_bounds": 8, "set_objective": 4, "set_direction": 3,
            "set_obj_coef": 3, "add_mets": 4, "add_reactions": 3, "remove_reactions": 2, "add_cons": 2, "add_var": 1,
            "enter": 1, "exit": 2, "copy": 1, "pickle": 1, "add_boundary": 3, "knock_out_gene": 2, "imul": 2},
    "C11": {"restart": 10, "edit_dict": 4, "set_attr": 4, "set_bounds": 6, "set_direction": 3, "set_objective": 3,
            "add_groups": 1, "rename_rxn": 2, "rename_met": 2, "set_rule": 4, "compartments": 2},
    "C10": {"restart": 10, "edit_dict": 4, "set_attr": 4, "set_bounds": 6, "set_direction": 3, "set_objective": 3, "group_edit": 3,
            "add_groups": 3, "rename_rxn": 2, "rename_met": 2, "set_rule": 4, "compartments": 2, "remove_groups": 1},
    "C12": {"copy": 4, "deepcopy": 2, "pickle": 3, "rxn_copy": 3, "rxn_arith": 3, "edit_dict": 4, "det_mutate": 4, "prune": 2,
            "enter": 1, "exit": 2},
}


def make_swarm(rng, prop, run_cfg):
    sw = {
        "max_mets": rng.randint(2, 6), "max_rxns": rng.randint(2, 7), "n_genes": rng.randint(2, 6),
        "p_rule": rng.choice([0.3, 0.6, 0.9]), "p_groups": rng.choice([0, 0.5]),
        "p_invalid": rng.choice([0, 0.05, 0.25]), "solver": rng.choice(["glpk", "glpk", "glpk_exact"]),
        "steps": rng.randint(4, run_cfg.get("max_steps", 30)),
    }
    if run_cfg.get("deep") and rng.random() < 0.35:
        # thorough tier: a third of the runs use larger networks and histories twice as long (drawn from a separate stream so that
        # the other two thirds stay the runs they always were)
        r2 = random.Random(rng.getrandbits(32))
        sw["max_mets"], sw["max_rxns"] = r2.randint(5, 8), r2.randint(6, 12)
        sw["steps"] = r2.randint(20, 2 * run_cfg.get("max_steps", 30))
        sw["deep"] = True
    weights = {}
    bias = PROP_BIAS.get(prop, {})
    for k, w in ALL_KINDS.items():
        w = bias.get(k, w)
        if w and (k in bias or rng.random() < 0.55):
            weights[k] = w * rng.choice([1, 1, 2, 4])
    if prop == "C07":
        sw["p_rule"] = 0.9
    if prop in ("C10", "C11"):
        sw["awkward"] = rng.random() < 0.5
        if sw["awkward"]:
            weights["rename_rxn"] = weights.get("rename_rxn", 2) * 3
            weights["rename_met"] = weights.get("rename_met", 2) * 3
    if prop == "C10":
        sw["restart_formats"] = ["sbml"]
        sw["sbml_domain"] = True
    if prop == "C11":
        sw["restart_formats"] = [f for f in ["pickle", "dict", "json", "yaml"] if rng.random() < 0.7] or ["json"]
        sw["none_values"] = rng.random() < 0.5
        if rng.random() < 0.3:
            # numbers that need 16-17 significant digits; only with the text formats (GLPK's own text format used by pickle/copy
            # carries 15 digits - the stated numeric assumption of the other workloads)
            sw["nonround"] = True
            sw["restart_formats"] = [f for f in sw["restart_formats"] if f != "pickle"] or ["json"]
            for k in ("copy", "deepcopy", "pickle", "merge", "prune"):
                weights.pop(k, None)
    if prop in ("C01", "C02", "C03") and rng.random() < 0.15:
        # coefficients that cancel only up to rounding noise (0.1 + 0.2 - 0.3) or are tiny but not zero: Python side and solver must
        # still agree exactly.  Not together with operations that send the problem through GLPK's 15-digit text format.
        sw["noise"] = True
        for k in ("copy", "deepcopy", "pickle", "merge", "prune", "solver", "restart"):
            weights.pop(k, None)
        # ... and no solves: GLPK's exact simplex needs minutes of rational arithmetic on a coefficient like 1e-13 (a run of C02 hung
        # until the watchdog killed its process); these runs are about the structure of the problem, not its solution
        for k in ("optimize", "slim_optimize", "helper"):
            weights.pop(k, None)
        for k in ("add_mets", "sub_mets"):
            weights[k] = weights.get(k, 3) * 3
    if prop == "C04" and rng.random() < 0.12:
        sw["open_ended"] = True  # unbounded problems are rare among generated networks: these runs open reactions towards infinity
    if not weights:
        weights = {"set_bounds": 1}
    sw["weights"] = weights
    return sw


# the forward name fits GLPK's 255 characters, the reverse name (id + "_reverse_" + 5 hex digits) does not
LONG_ID = "L" * 245
AWK_SUFFIX = [".1", "-x", ":y", "/z", "[c]", "(e)", "=q", "'p", "__x", "_DASH_", ".", "-", "\u03b2", "\u00fc\u2192"]
AWK_GENES = ["g.1", "2g", "g-3", "g:4", "g5.x-y", "gene/6"]


def _awkward(prefix, existing, rng):
    for _ in range(50):
        base = rng.choice([prefix, "2" + prefix, prefix.lower()])
        c = f"{base}{rng.randint(0, 9)}{rng.choice(AWK_SUFFIX)}"
        if c not in existing:
            return c
    return _fresh(prefix, existing, rng)


def _fresh(prefix, existing, rng):
    for _ in range(50):
        c = f"{prefix}{rng.randint(0, 30)}"
        if c not in existing:
            return c
    return f"{prefix}x{rng.randint(1000, 9999)}"


def prop_is_c11(sw):
    return bool(sw.get("restart_formats")) and "sbml" not in sw["restart_formats"]


def gen_op(rng, H, sw):
    ai = rng.randrange(len(H.actors))
    a = H.actors[ai]
    ref = a.ref
    depth = len(a.model._contexts)
    kinds, ws = [], []
    for k, w in sw["weights"].items():
        if depth > 0 and k not in REVERSIBLE:
            continue
        if k in ("exit", "exit_exc") and depth == 0:
            continue
        if k == "enter" and depth >= 4:
            continue
        if k in LIFECYCLE and len(H.actors) >= 3:
            continue
        for q in H.run_cfg.get("quarantine", []):
            pass
        kinds.append(k)
        ws.append(w)
    if not kinds:
        kinds, ws = ["set_bounds"], [1]
    k = rng.choices(kinds, ws)[0]
    op = {"op": k, "actor": ai}
    rids, mids, gids = sorted(ref.rxns), sorted(ref.mets), sorted(ref.genes)
    inv = rng.random() < sw["p_invalid"]

    def rid():
        return rng.choice(rids) if rids else "R0"

    def mid():
        return rng.choice(mids) if mids else "A"

    def new_met():
        i = _fresh("N", ref.mets, rng)
        if rids and rng.random() < 0.06 and (x := rng.choice(rids)) not in ref.mets and len(x) < 200:
            i = x  # an identifier that a reaction of the model already has: the kinds have separate namespaces
        if inv and rng.random() < 0.3:
            i = rng.choice(["bad id", "tab\tid", "nl_id\n"])
        return {"t": "new", "id": i, "name": rng.choice(["", "new met"]), "formula": rng.choice([None, "H2O"]),
                "charge": rng.choice([None, 0, 1]), "compartment": rng.choice(["c", "e", None])}

    def metref(allow_new=True):
        t = rng.choice(["own", "own", "id", "copy", "new"] if allow_new else ["own", "id", "copy"])
        if len(H.actors) > 1 and rng.random() < 0.25:
            # a metabolite object that belongs to ANOTHER live model: documented to be copied, never adopted
            bi = rng.choice([i for i in range(len(H.actors)) if i != ai])
            bm = sorted(H.actors[bi].ref.mets)
            if bm:
                return {"t": "foreign", "actor": bi, "id": rng.choice(bm)}
        if t == "new" or not mids:
            return new_met()
        if t == "id" and inv:
            return {"t": "id", "id": "nope"}
        return {"t": t, "id": mid()}

    def metlist(n=3):
        out, seen = [], set()
        for _ in range(rng.randint(1, n)):
            mr = metref()
            if mr["id"] in seen:
                continue
            seen.add(mr["id"])
            out.append([mr, rng.choice(COEFS) if rng.random() > 0.08 else rng.choice([0, 0.0])])
            if sw.get("nonround") and rng.random() < 0.5:
                # 16-17 significant digits, also in exponent notation
                out[-1][1] = rng.choice([1 / 3, -2 / 7, 8.028549152229672e-13, -1.2345678901234567e-05, 1e7 / 3])
            if sw.get("noise") and rng.random() < 0.6:
                out[-1][1] = rng.choice([0.1, 0.2, -0.3, 0.3, -0.1, -0.2, 1e-13, -1e-13])
        return out

    if k == "set_bounds":
        how = rng.choice(["bounds", "bounds", "lb", "ub"])
        lb, ub = rng.choice(BOUNDS), rng.choice(BOUNDS)
        if sw.get("nonround"):
            lb, ub = rng.choice([-100 / 3, -0.1 - 0.2, -1 / 7, 0]), rng.choice([0.1 + 0.2, 100 / 7, 2 / 3, 1e-3 / 3])
        if not inv and how == "bounds" and lb > ub:
            lb, ub = ub, lb
        if inv and rng.random() < 0.15:
            lb = float("nan") if rng.random() < 0.5 else lb  # not a number: refused like lb > ub
            ub = float("nan") if lb == lb else ub
        op.update(r=rid(), how=how, lb=lb, ub=ub)
    elif k == "knock_out_rxn":
        op["r"] = rid()
    elif k in ("add_mets", "sub_mets"):
        op.update(r=rid(), mets=metlist(), combine=rng.random() < 0.6)
        if rng.random() < 0.2:
            op["reuse"] = rng.choice(["values", "clear"])
        if rids and rng.random() < 0.3 and ref.rxns[op["r"]]["mets"]:
            # cancel an existing coefficient exactly (coefficient becomes zero -> removed)
            m0 = rng.choice(sorted(ref.rxns[op["r"]]["mets"]))
            c0 = ref.rxns[op["r"]]["mets"][m0]
            op.update(mets=[[{"t": rng.choice(["own", "id"]), "id": m0}, -c0 if k == "add_mets" else c0]], combine=True)
    elif k == "imul":
        op.update(r=rid(), k=rng.choice(MULTS))
    elif k in ("iadd", "isub"):
        op.update(r=rid(), r2=rid())
        dets = sorted(H.detached)
        if dets and rng.random() < 0.3:
            op.update(r2=rng.choice(dets), src="det")
        elif len(H.actors) > 1 and rng.random() < 0.25:
            bi = rng.choice([i for i in range(len(H.actors)) if i != ai])
            br = sorted(H.actors[bi].ref.rxns)
            if br:
                op.update(r2=rng.choice(br), src="foreign", actor2=bi)
    elif k in ("set_rule", "set_gpr"):
        if rng.random() < 0.15:
            tree = None
        else:
            alphabet = GENES[: sw["n_genes"]] + (["gX"] if rng.random() < 0.1 else [])
            if sw.get("awkward"):
                alphabet = alphabet[:2] + AWK_GENES[: sw["n_genes"]]
            tree = gprtree.random_tree(rng, alphabet, 3)
        op.update(r=rid(), tree=tree, rule=gprtree.spell(tree, rng))
        if inv and k == "set_rule" and rng.random() < 0.5:
            op.update(tree=None, rule=rng.choice(["g1 and", "(g1", "g1 or or g2"]), malformed=True)
    elif k == "rename_rxn":
        nf = _awkward if sw.get("awkward") and rng.random() < 0.7 else _fresh
        op.update(r=rid(), new=(rng.choice([rid(), "bad id", LONG_ID, "Rnl\n"]) if inv else nf("Q", ref.rxns, rng)))
    elif k == "rename_met":
        nf = _awkward if sw.get("awkward") and rng.random() < 0.7 else _fresh
        op.update(m=mid(), new=(rng.choice([mid(), "bad id", "Mnl\n"]) if inv else nf("Z", ref.mets, rng)))
    elif k == "set_attr":
        kind = rng.choice(["rxn", "rxn", "met", "met", "gene"])
        if kind == "rxn":
            op.update(kind=kind, id=rid(), attr=rng.choice(["name", "subsystem"]), value=rng.choice(["", "x y", "sub3"]))
        elif kind == "met":
            attr = rng.choice(["name", "formula", "charge", "compartment"])
            val = {"name": rng.choice(["", "nm"]), "formula": rng.choice([None, "H2O", "C2H4"]),
                   "charge": rng.choice([None, 0, -2] + ([1.5, -0.5] if prop_is_c11(sw) else [])), "compartment": rng.choice(["c", "e", "p"])}[attr]
            op.update(kind=kind, id=mid(), attr=attr, value=val)
        else:
            op.update(kind=kind, id=(rng.choice(gids) if gids else "g0"), attr="name", value=rng.choice(["", "gene n"]))
    elif k == "edit_dict":
        kind = rng.choice(["rxn", "met", "gene", "model"])
        i = {"rxn": rid(), "met": mid(), "gene": (rng.choice(gids) if gids else "g0"), "model": None}[kind]
        which = rng.choice(["notes", "annotation"])
        if sw.get("sbml_domain"):
            if which == "annotation":
                key = rng.choice(["kegg.compound", "chebi", "ec-code", "sbo"])
                val = {"kegg.compound": rng.choice(["C00001", ["C00002", "C00003"]]),
                       "chebi": rng.choice(["CHEBI:17234", ["CHEBI:17234", "CHEBI:4167"], ["CHEBI:15377"], ["CHEBI:42758", "CHEBI:4275"]]),
                       "ec-code": rng.choice(["1.1.1.1", ["2.7.1.1", "2.7.1.2"], ["2.7.1.11", "2.7.1.1"], ["1.1.1.1", "1.1.1.1"][:1]]),
                       "sbo": rng.choice(["SBO:0000176", "SBO:0000247"])}[key]
                if rng.random() < 0.2:
                    # identifiers with characters that are not URI-safe (they travel inside an rdf:resource URI)
                    key = rng.choice(["kegg.drug", "inchi", "reactome"])
                    val = rng.choice(["alcohol dehydrogenase 1", "C 0001%2", ["R-HSA|70171", "100% pure"], "InChI=1S/H2O/h1H2",
                                      "caf\u00e9 {x}", ["a^b", "q\"r"]])
            else:
                key, val = rng.choice(["note", "curator", "confidence"]), rng.choice(["plain text", "x", "3"])
                if rng.random() < 0.2:
                    val = rng.choice(["a & b", "x < y", "p > q", "3 < 4 & 5 > 4", "caf\u00e9 100%"])  # plain text, but special in XML
                if kind == "rxn" and rng.random() < 0.3:
                    # what legacy imports leave behind; the rule itself is edited through the API later
                    key, val = rng.choice(["GENE_ASSOCIATION", "GENE ASSOCIATION"]), rng.choice(["g0 and g1", "g2"])
            op.update(kind=kind, id=i, which=which, key=key, value=val)
        else:
            val = rng.choice(["v1", ["a", "b"]]) if which == "annotation" else rng.choice(["note", "other", ["n1"]])
            if sw.get("none_values") and rng.random() < 0.4:
                # "nothing" inside a container value
                val = rng.choice([["a", None], [None]]) if which == "annotation" else rng.choice([["n1", None], {"inner": None, "n": 1}])
            op.update(kind=kind, id=i, which=which, key=rng.choice(["k1", "kegg", "sbo"]), value=val)
            if rng.random() < 0.35:
                op.update(nested=True, value=rng.choice(["x1", "x2"]))
                # aim at a container value that exists (in this model, hence also in its copies)
                spots = [(kd, i2, wh, k2) for kd, tbl in (("rxn", ref.rxns), ("met", ref.mets), ("gene", ref.genes))
                         for i2 in sorted(tbl) for wh in ("notes", "annotation") for k2, v2 in sorted(tbl[i2][wh].items())
                         if isinstance(v2, list)]
                if spots:
                    kd, i2, wh, k2 = rng.choice(spots)
                    op.update(kind=kd, id=i2, which=wh, key=k2)
    elif k == "add_metabolites":
        ms = []
        for _ in range(rng.randint(1, 2)):
            m = new_met()
            if rng.random() < 0.2 and mids:
                m["id"] = mid()  # already present -> ignored
            m.pop("t")
            ms.append(m)
        if inv and rng.random() < 0.5:
            ms[-1]["id"] = rng.choice(["bad met", "Mnl\n"])
        op.update(mets=ms, single=rng.random() < 0.3)
        if rng.random() < 0.08:
            op.update(twice=True, single=False)
    elif k == "remove_metabolites":
        op.update(ms=sorted({mid() for _ in range(rng.randint(1, 2))}), destructive=rng.random() < 0.4,
                  via=rng.choice(["model", "met"]), single=rng.random() < 0.3)
        if rng.random() < 0.1:
            op.update(repeat=True, via="model", single=False)
        elif len(H.actors) > 1 and rng.random() < 0.15:
            op.update(foreign=rng.randint(1, 2), via="model")
    elif k == "add_boundary":
        typ = rng.choice(["exchange", "demand", "sink", "custom"])
        op.update(m=mid(), type=typ)
        if rng.random() < 0.15:
            nm = new_met()
            nm.pop("t")
            op.update(m=nm.pop("id"), new_met=nm)
        if typ == "custom" and not inv:
            op.update(rid=_fresh("BND", ref.rxns, rng), lb=rng.choice([None, -10, 0]), ub=rng.choice([None, 10, 1000]))
        if rng.random() < 0.3:
            op.update(lb=rng.choice([-10, -1000, 0]), ub=rng.choice([10, 1000]))
        if rng.random() < 0.15:
            op["rid"] = _fresh("BND", ref.rxns, rng)
        if rng.random() < 0.1:
            op["sbo"] = "SBO:0000999"
    elif k == "add_reactions":
        specs = []
        for _ in range(rng.randint(1, 2)):
            i = _fresh("R", ref.rxns, rng)
            if rng.random() < 0.15 and rids:
                i = rid()  # existing id -> ignored
            elif mids and rng.random() < 0.06 and (x := rng.choice(mids)) not in ref.rxns:
                i = x  # an identifier that a metabolite of the model already has
            tree = gprtree.random_tree(rng, GENES[: sw["n_genes"]], 2) if rng.random() < sw["p_rule"] else None
            lb, ub = sorted([rng.choice(BOUNDS), rng.choice(BOUNDS)])
            ml = [[mr, c] for mr, c in metlist() if mr["t"] != "id"]
            specs.append({"id": i, "name": rng.choice(["", "added"]), "subsystem": "", "lb": lb, "ub": ub,
                          "mets": ml, "tree": tree, "rule": gprtree.spell(tree, rng)})
        if len({s["id"] for s in specs}) != len(specs) and not inv:
            specs = specs[:1]
        if inv and rng.random() < 0.5:
            specs[-1]["id"] = rng.choice(["bad rxn", "bad rxn", "Rnl\n"])  # an id the solver interface rejects (whitespace)
        elif inv and rng.random() < 0.5:
            specs[-1]["lb"], specs[-1]["ub"] = 5, 1  # bounds no setter would accept
        elif inv and rng.random() < 0.5:
            specs[-1]["id"] = LONG_ID
        op["rxns"] = specs
        if rng.random() < 0.2:
            op["container"] = rng.choice(["tuple", "generator", "iterator"])
    elif k == "remove_reactions":
        rs = sorted({rid() for _ in range(rng.randint(1, 2))})
        if inv:
            rs.append("nope")
        if inv and rng.random() < 0.4:
            op["bad_tail"] = rng.choice(["none", "float"])
        op.update(rs=rs, remove_orphans=rng.random() < 0.4, via=rng.choice(["model", "model", "rxn"]))
        op["as"] = rng.choice(["obj", "id", "mixed"])
        if rids and rng.random() < 0.04:
            op.pop("bad_tail", None)
            op.update(own_list=True, rs=list(rids), via="model")
            op["as"] = "obj"
    elif k == "set_objective":
        how = rng.choice(["id", "rxn", "index", "list", "dict", "expr", "optlang"])
        if how in ("expr", "optlang"):
            items = [[r, rng.choice([1, -1, 2, 0.5])] for r in sorted({rid() for _ in range(rng.randint(1, 2))})]
            op["dir"] = rng.choice(["max", "min"])
        elif how in ("id", "rxn"):
            items = [rid() if not inv else "nope"]
        elif how == "index":
            items = [rng.randrange(max(1, len(rids)))]
        elif how == "list":
            items = sorted({rid() for _ in range(rng.randint(1, 2))})
        else:
            items = [[r, rng.choice([1, -1, 2, 0.5, 0])] for r in sorted({rid() for _ in range(rng.randint(1, 2))})]
            if inv and H.detached:
                items.append(["det:" + rng.choice(sorted(H.detached)), 1])
            elif len(H.actors) > 1 and rng.random() < 0.3:
                op["foreign_keys"] = rng.randint(1, 2)
        op.update(how=how, items=items)
    elif k == "set_direction":
        op["dir"] = rng.choice(["max", "min", "maximize", "minimize", "Max", "MIN"] + (["sideways"] if inv else []))
    elif k == "set_obj_coef":
        op.update(r=rid(), v=rng.choice([0, 1, -1, 2, 0.5] + ([1 / 3, 0.1 + 0.2] if sw.get("nonround") else [])))
    elif k == "add_cons":
        expr = [[r, rng.choice([1, -1, 2])] for r in sorted({rid() for _ in range(rng.randint(1, 2))})]
        lb, ub = sorted([rng.choice([-10, 0, 5, 1000]), rng.choice([-10, 0, 5, 1000])])
        op.update(name=_fresh("ucon", ref.user, rng), expr=expr, lb=rng.choice([lb, None]), ub=rng.choice([ub, None]))
        if op["lb"] is None and op["ub"] is None:
            op["ub"] = ub
        uvars = sorted(n for n, u in ref.user.items() if u["kind"] == "var")
        if uvars and rng.random() < 0.5:
            op["vars"] = [[rng.choice(uvars), rng.choice([1, -1])]]
    elif k == "add_var":
        op.update(name=_fresh("uvar", ref.user, rng), lb=rng.choice([0, -5, None]), ub=rng.choice([10, 1000, None]))
    elif k == "remove_cons_vars":
        names = sorted(ref.user)
        if not names:
            return gen_fallback(op, rid, rng)
        op["names"] = [rng.choice(names)]
    elif k in ("knock_out_gene", "set_functional"):
        op["g"] = rng.choice(gids) if gids else "g0"
        if k == "set_functional":
            op["v"] = rng.choice([True, False, False]) if not inv else 1
    elif k == "knock_out_model_genes":
        if not gids:
            return gen_fallback(op, rid, rng)
        how = rng.choice(["id", "obj", "idx"])
        gs = [rng.choice(gids) for _ in range(rng.randint(1, 3))]
        if how == "idx":
            order = [g.id for g in a.model.genes]
            gs = [order.index(g) for g in gs if g in order] or [0]
        if inv:
            # an entry that cannot be resolved, after entries that can
            gs.append({"id": "g99", "obj": "g99", "idx": 99}[how] if rng.random() < 0.8 else None)
        op.update(genes=gs)
        op["as"] = how
        if how == "obj" and len(H.actors) > 1 and rng.random() < 0.4:
            op.update(src="foreign", actor2=rng.choice([i for i in range(len(H.actors)) if i != ai]))
        elif how in ("id", "idx") and not inv:
            specs = H.__dict__.setdefault("caller_list_specs", {})
            same = sorted(k for k, v in specs.items() if v[0] == how)
            if same and rng.random() < 0.5:
                key = rng.choice(same)
                op.update(genes=list(specs[key][1]), list_key=key)  # the same list object again (perhaps on another model)
            elif rng.random() < 0.5:
                key = f"L{len(specs)}"
                specs[key] = (how, list(gs))
                op["list_key"] = key
    elif k == "remove_genes":
        if not gids:
            return gen_fallback(op, rid, rng)
        op.update(genes=sorted({rng.choice(gids) for _ in range(rng.randint(1, 2))}),
                  remove_reactions=rng.random() < 0.5)
        op["as"] = rng.choice(["id", "obj"])
    elif k == "rename_genes":
        if not gids:
            return gen_fallback(op, rid, rng)
        mp = {}
        for g in sorted({rng.choice(gids) for _ in range(rng.randint(1, 3))}):
            mp[g] = _fresh("h", set(ref.genes) | set(mp.values()), rng) if rng.random() < 0.8 else rng.choice(gids)
        if len(mp) >= 2 and rng.random() < 0.3:
            tgt = list(mp.values())[0]
            mp = {g: tgt for g in mp}  # several genes onto one new id
        op["map"] = mp
    elif k == "medium":
        try:
            ex = sorted(r.id for r in a.model.exchanges)
        except Exception:
            ex = []
        med = {r: rng.choice([0, 1, 5, 10, 1000]) for r in ex if rng.random() < 0.6}
        if inv and rids:
            med[rid()] = 5
        op["medium"] = med
    elif k == "build_from_string":
        pool = mids + [_fresh("S", ref.mets, rng)]
        chosen = rng.sample(pool, min(len(pool), rng.randint(1, 3)))
        cut = rng.randint(0, len(chosen))
        f = lambda ms: [[m, rng.choice([None, None, 2, 0.5])] for m in ms]
        left, right = chosen[:cut], chosen[cut:]
        if chosen and rng.random() < 0.3:
            # the same metabolite named twice: on one side ("a + a --> b") or on both ("e + a <=> e + b")
            (left if rng.random() < 0.5 else right).append(rng.choice(chosen))
        op.update(r=rid(), left=f(left), right=f(right), arrow=rng.choice(["-->", "<=>", "<--"]),
                  via=rng.choice(["method", "setter"]))
        if inv and rng.random() < 0.5:
            op["bad_term"] = rng.choice(["2 x Q9", "1,5 Q9", "two Q9 Q8"])
    elif k == "optimize":
        if rng.random() < 0.4:
            op["sense"] = rng.choice(["maximize", "minimize"])
        if rng.random() < 0.2:
            op["raise_error"] = True
    elif k == "slim_optimize":
        if rng.random() < 0.3:
            op["error_value"] = rng.choice([None, None, -1.0, 0, 0.0, False, 7.5])
        if sw.get("open_ended") and rids and rng.random() < 0.5:
            # C04 runs that aim at unbounded problems: first open the objective reaction (or any reaction) towards infinity
            op["open_first"] = rid()
    elif k == "solver":
        op["name"] = rng.choice(["glpk", "glpk_exact"])
    elif k == "tolerance":
        op["value"] = rng.choice([1e-7, 1e-6, 1e-9])
    elif k == "compartments":
        op["value"] = rng.choice([{"c": "cyto"}, {"e": "extra", "p": "peri"}, {}])
    elif k == "config_bounds":
        op["value"] = rng.choice([[-1000.0, 1000.0], [-10.0, 10.0], [0.0, 100.0], [-99999.0, 99999.0], [-50.0, 500.0]])
    elif k == "add_groups":
        members = [["Reaction", r] for r in rids if rng.random() < 0.3] + [["Metabolite", m] for m in mids if rng.random() < 0.2]
        members += [["Gene", g] for g in gids if rng.random() < 0.2]
        gid = _fresh("grp", ref.groups, rng) if rng.random() < 0.8 or not ref.groups else rng.choice(sorted(ref.groups))
        op["groups"] = [{"id": gid, "name": "g", "kind": rng.choice(["collection", "classification"]), "members": members}]
    elif k == "remove_groups":
        if not ref.groups:
            return gen_fallback(op, rid, rng)
        op["ids"] = [rng.choice(sorted(ref.groups))]
        if rng.random() < 0.25:
            op["as"] = "id"
    elif k == "group_edit":
        if not ref.groups:
            return gen_fallback(op, rid, rng)
        gid = rng.choice(sorted(ref.groups))
        how = rng.choice(["add", "add", "remove", "kind", "name"])
        op.update(gid=gid, how=how)
        if how == "add":
            cands = [["Reaction", r] for r in rids] + [["Metabolite", m] for m in mids] + [["Gene", g] for g in gids]
            op["members"] = rng.sample(cands, min(len(cands), rng.randint(1, 2)))
        elif how == "remove":
            cur = ref.groups[gid]["members"]
            op["members"] = rng.sample(cur, min(len(cur), 1)) if cur else []
        elif how == "kind":
            op["value"] = rng.choice(["collection", "classification", "partonomy"] + (["bogus"] if inv else []))
        else:
            op["value"] = rng.choice(["", "renamed group"])
    elif k == "prune":
        op["what"] = rng.choice(["mets", "rxns"])
    elif k == "pickle":
        op["proto"] = rng.choice([2, 4, 5])
        if rids and rng.random() < 0.3:
            op["via_reaction"] = rid()
    elif k == "restart":
        fmts = sw.get("restart_formats", ["pickle", "dict", "json", "yaml"])
        G = [(-1000.0, 1000.0), (-1000.0, 1000.0), (-10.0, 10.0), (0.0, 100.0), (-99999.0, 99999.0)]
        op.update(fmt=rng.choice(fmts), variant=rng.choice(["string", "path", "handle"]), sort=rng.random() < 0.5,
                  pretty=rng.random() < 0.3, strpath=rng.random() < 0.7, Gw=list(rng.choice(G)), Gr=list(rng.choice(G)))
        if op["fmt"] == "sbml":
            op.update(f_replace=rng.choice(["default", "default", "none"]), sio=rng.random() < 0.3)
        if rng.random() < 0.25:
            op["twice"] = True
    elif k == "helper":
        op.update(name=rng.choice(["add_pfba", "add_moma", "fix_objective", "fix_objective", "add_lp_feasibility"]),
                  fraction=rng.choice([1.0, 1.0, 0.5]))
    elif k == "merge":
        sw2 = dict(sw, max_mets=min(4, sw["max_mets"] + 1), max_rxns=3, p_groups=0)
        right = gen_model_spec(rng, sw2)
        right["id"] = "right"
        right["solver"] = "glpk"
        op.update(right=right, prefix=rng.choice([None, None, "pre_"]), inplace=rng.random() < 0.75,
                  objective=rng.choice(["left", "left", "right", "sum"]))
    elif k == "readd_reaction":
        cands = sorted(r for (i, r) in H.removed if i == ai and r not in ref.rxns)
        if not cands:
            return gen_fallback(op, rid, rng)
        op["rid"] = rng.choice(cands)
    elif k == "removed_mutate":
        cands = sorted(r for (i, r) in H.removed if i == ai and r not in ref.rxns)
        if not cands:
            return gen_fallback(op, rid, rng)
        r0 = rng.choice(cands)
        old = sorted(gprtree.genes(H.removed[(ai, r0)][1]["x"]["rule"])) if H.removed[(ai, r0)][1]["x"]["rule"] is not None else []
        keep = rng.choice(old) if old else rng.choice(GENES[: sw["n_genes"]])
        op.update(rid=r0, rule=rng.choice([keep, f"{keep} or {rng.choice(GENES[: sw['n_genes']])}", f"{keep} and gX"]))
        if rng.random() < 0.3:
            op.update(how="cancel", j=rng.randint(0, 3))
        elif rng.random() < 0.3:
            op.update(how="rename", new=_fresh("REN", ref.rxns, rng))
    elif k == "ctx_removed_edit":
        cands = sorted(r for (i, r) in H.ctx_removed if i == ai and r not in ref.rxns)
        if not cands or depth == 0:
            return gen_fallback(op, rid, rng)
        # wider than any bound the history can have set: undo entries recorded earlier in the block (bound restores on this reaction)
        # are replayed after the reaction is back and must not collide with the new bounds
        lb, ub = rng.choice([-2000, -3000, -1500]), rng.choice([2000, 1500, 4000])
        op.update(rid=rng.choice(cands), lb=lb, ub=ub)
    elif k == "det_mutate":
        dets = sorted(H.detached)
        if not dets:
            return gen_fallback(op, rid, rng)
        how = rng.choice(["bounds", "imul", "rule", "id", "coeff", "met_attr"])
        op.update(key=rng.choice(dets), how=how, lb=-3, ub=rng.choice([3, 7]), k=rng.choice(MULTS),
                  rule=rng.choice(["g0 and g9", "", "g1"]), new=_fresh("DET", ref.rxns, rng), c=rng.choice(COEFS),
                  value=rng.choice(["changed", "other"]))
    elif k == "rxn_copy":
        op.update(r=rid(), key=f"d{len(H.detached)}")
        cands = sorted(r for (i, r) in H.removed if i == ai)
        if cands and rng.random() < 0.4:
            op.update(r=rng.choice(cands), src="removed", how=rng.choice(["copy", "copy", "mul", "add", "sub"]))
    elif k == "rxn_arith":
        f = rng.choice(["*", "+", "-", "+0", "0+", "sum1"])
        op.update(r=rid(), f=f, key=f"d{len(H.detached)}")
        if rng.random() < 0.08:
            op["poison"] = rng.choice([True, "met"])
        if f == "*":
            op["k"] = rng.choice(MULTS)
        elif f in ("+", "-"):
            op["r2"] = rid()
    return op


def gen_fallback(op, rid, rng):
    return {"op": "set_bounds", "actor": op["actor"], "r": rid(), "how": "bounds", "lb": 0, "ub": rng.choice([0, 10, 1000])}


# ------------------------------------------------------------------------------------------
# engine interface


def _execute(trace, prop, run_cfg, gen=None):
    res = RunResult()
    res.trace = trace
    streams = Streams(trace["cfg"].get("hash_seed", 0))
    seams.reset_world(streams)
    step_digests = []
    H = None
    try:
        try:
            H = Hist(trace, prop, res.stats, run_cfg)
            n = trace["cfg"]["swarm"]["steps"] if gen else len(trace["ops"])
            for s in range(n):
                if gen:
                    op = gen(H)
                    trace["ops"].append(op)
                else:
                    op = trace["ops"][s]
                try:
                    snap = H.step(op)
                except Violation as v:
                    v.step = s
                    if v.culprit is None:
                        v.culprit = op
                    raise
                if snap is not None:
                    sd = digest([snap["content"], snap["objective"]])
                    res.states.add(sd)
                    step_digests.append(sd)
                else:
                    step_digests.append("-")
                res.steps += 1
                if run_cfg.get("verbose"):
                    print(f"  step {s}: {op}")
            if gen:
                # unwind every context still open, so that each block that was entered is judged
                for ai, a in enumerate(H.actors):
                    while a.model._contexts:
                        op = {"op": "exit", "actor": ai}
                        trace["ops"].append(op)
                        try:
                            H.step(op)
                        except Violation as v:
                            v.step = len(trace["ops"]) - 1
                            if v.culprit is None:
                                v.culprit = op
                            raise
                        res.steps += 1
        except EndRun:
            pass
        except Violation as v:
            res.violation = v.as_dict()
    finally:
        seams.cleanup_tmp()
    res.nontrivial = bool(H and H.changed)
    res.trace_digest = digest([trace["ops"], step_digests])
    return res


def _subset_script(rng, spec, sw):
    """C07: every subset of the model's genes (<= 6 genes -> <= 64 subsets), each knocked out inside its own context in a
    seeded order, by a seeded mix of Gene.knock_out and knock_out_model_genes (objects | ids | indices)."""
    genes = sorted({g for r in spec["rxns"] for g in gprtree.genes(r.get("tree"))})[:6]
    subsets = [[g for i, g in enumerate(genes) if mask >> i & 1] for mask in range(1, 1 << len(genes))]
    rng.shuffle(subsets)
    queue = []
    for sub in subsets:
        order = list(sub)
        rng.shuffle(order)
        queue.append({"op": "enter", "actor": 0})
        how = rng.choice(["single", "single", "together", "mixed"])
        if how == "single":
            queue += [{"op": "knock_out_gene", "actor": 0, "g": g} for g in order]
        elif how == "together":
            queue.append({"op": "knock_out_model_genes", "actor": 0, "genes": order, "as": rng.choice(["id", "obj"])})
        else:
            k = rng.randint(0, len(order))
            queue += [{"op": "knock_out_gene", "actor": 0, "g": g} for g in order[:k]]
            if order[k:]:
                queue.append({"op": "knock_out_model_genes", "actor": 0, "genes": order[k:], "as": rng.choice(["id", "obj"])})
        if rng.random() < 0.2 and spec["rxns"]:
            queue.append({"op": "knock_out_rxn", "actor": 0, "r": rng.choice(spec["rxns"])["id"]})
        queue.append({"op": rng.choice(["exit", "exit", "exit_exc"]), "actor": 0})
    return queue


def generate_and_run(run_seed, prop, tier, run_cfg):
    St = Streams(run_seed)
    sw = make_swarm(St("swarm"), prop, run_cfg)
    spec = gen_model_spec(St("model"), sw)
    trace = {"engine": "hist", "cfg": {"model": spec, "swarm": sw, "hash_seed": St("hash").getrandbits(32)}, "ops": []}
    rng = St("ops")
    if prop == "C07" and St("swarm2").random() < (0.5 if tier == "thorough" else 0.15):
        queue = _subset_script(St("script"), spec, sw)
        sw["steps"] = len(queue)
        sw["script"] = "all gene subsets"
        it = iter(queue)

        def scripted(H):
            H.stats["probe:subset_script_step"] += 1
            return next(it)

        return _execute(trace, prop, run_cfg, gen=scripted)
    return _execute(trace, prop, run_cfg, gen=lambda H: gen_op(rng, H, sw))


def replay(trace, prop, run_cfg):
    t = {"engine": "hist", "cfg": copy.deepcopy(trace["cfg"]), "ops": copy.deepcopy(trace["ops"])}
    return _execute(t, prop, run_cfg)


def simplify(trace):
    spec = trace["cfg"]["model"]
    # drop reactions / metabolites / groups of the initial model
    for key in ("groups", "rxns", "mets"):
        for j in range(len(spec.get(key, []))):
            t = copy.deepcopy(trace)
            item = t["cfg"]["model"][key].pop(j)
            if key == "rxns":
                if item["id"] in t["cfg"]["model"]["objective"]:
                    continue
                for g in t["cfg"]["model"].get("groups", []):
                    g["members"] = [m for m in g["members"] if m != ["Reaction", item["id"]]]
            if key == "mets":
                if any(item["id"] == m for r in t["cfg"]["model"]["rxns"] for m, _ in r["mets"]):
                    continue
                for g in t["cfg"]["model"].get("groups", []):
                    g["members"] = [m for m in g["members"] if m != ["Metabolite", item["id"]]]
            yield t
    for j, r in enumerate(spec["rxns"]):
        if r.get("tree") is not None:
            t = copy.deepcopy(trace)
            t["cfg"]["model"]["rxns"][j]["tree"] = None
            yield t
    for s, op in enumerate(trace["ops"]):
        for key in ("mets", "rxns", "rs", "ms", "genes", "items"):
            v = op.get(key)
            if isinstance(v, list) and len(v) > 1:
                for j in range(len(v)):
                    t = copy.deepcopy(trace)
                    del t["ops"][s][key][j]
                    yield t
        if op.get("actor", 0) != 0 and not any(o["op"] in LIFECYCLE for o in trace["ops"][:s]):
            t = copy.deepcopy(trace)
            t["ops"][s]["actor"] = 0
            yield t


def sample_of(trace):
    spec = trace["cfg"]["model"]
    return {"model": {"reactions": [{k: r[k] for k in ("id", "lb", "ub", "mets", "tree")} for r in spec["rxns"]],
                      "objective": spec["objective"], "direction": spec["direction"], "solver": spec.get("solver")},
            "ops": trace["ops"][:15]}


def match_finding(trigger, trace, violation):
    from ..quarantine import TRIGGERS

    fn = TRIGGERS.get(trigger)
    return bool(fn and fn(trace, violation))
