"""Simulation core: seed streams, campaign runner, replay/VIOLATION contract, evidence.

One integer (VERIF_SEED) decides everything: run seeds are H(VERIF_SEED, i); inside a run
every decision is drawn from a labelled sub-stream Random(H(run_seed, label)).  Logging,
snapshots and oracles never draw and never read a clock.
"""
from __future__ import annotations

import faulthandler
import hashlib
import json
import os
import random
import signal
import subprocess
import sys
import time
import traceback
from collections import Counter

VERIF = os.path.dirname(os.path.dirname(os.path.abspath(__file__)))
OUT = os.environ.get("VERIF_OUT") or os.path.join(VERIF, "out")
REPLAYS = os.path.join(OUT, "replays")
EVIDENCE = os.environ.get("VERIF_EVIDENCE_DIR") or os.path.join(VERIF, "evidence")
NPROC = int(os.environ.get("VERIF_NPROC", "16"))

DEFAULT_SEEDS = {"quick": 20260926, "thorough": 77260926}


# ------------------------------------------------------------------------------------------
# seeds


def H(*parts) -> int:
    h = hashlib.sha256("\x1f".join(str(p) for p in parts).encode()).digest()
    return int.from_bytes(h[:8], "big")


def digest(obj) -> str:
    return hashlib.sha256(
        json.dumps(obj, sort_keys=True, default=repr).encode()
    ).hexdigest()[:16]


class Streams:
    """Labelled independent PRNG sub-streams of one run seed."""

    def __init__(self, seed: int):
        self.seed = seed
        self._s = {}

    def __call__(self, label: str) -> random.Random:
        r = self._s.get(label)
        if r is None:
            r = self._s[label] = random.Random(H(self.seed, label))
        return r


# ------------------------------------------------------------------------------------------
# results


class Violation(Exception):
    """Raised by an oracle.  `oracle` names the violation class."""

    def __init__(self, oracle: str, detail, step=None, culprit=None):
        super().__init__(f"{oracle}: {detail}")
        self.oracle = oracle
        self.detail = detail
        self.step = step
        self.culprit = culprit

    def as_dict(self):
        return {
            "oracle": self.oracle,
            "detail": self.detail,
            "step": self.step,
            "culprit": self.culprit,
        }


class RunTimeout(BaseException):
    pass


def _alarm(signum, frame):  # pragma: no cover
    raise RunTimeout()


class RunResult:
    """Outcome of one simulated run (JSON-able through .as_dict())."""

    def __init__(self):
        self.trace = None  # full replayable trace (dict)
        self.violation = None  # dict or None
        self.stats = Counter()  # probes, op counts, fault counts
        self.steps = 0
        self.sim_time = 0.0
        self.nontrivial = False
        self.trace_digest = ""  # digest of ops/schedule/faults + per-step state digests
        self.states = set()  # state digests reached
        self.inter = set()  # interleaving digests reached (POOL)
        self.error = None  # harness error text
        self.sample = None

    def as_dict(self, keep_trace):
        d = {
            "violation": self.violation,
            "stats": dict(self.stats),
            "steps": self.steps,
            "sim_time": self.sim_time,
            "nontrivial": self.nontrivial,
            "trace_digest": self.trace_digest,
            "states": sorted(self.states),
            "inter": sorted(self.inter),
            "error": self.error,
        }
        if keep_trace or self.violation or self.error:
            d["trace"] = self.trace
        return d


# ------------------------------------------------------------------------------------------
# campaign runner: forked children, each running a slice of run indices, writing JSONL


def _child(engine, prop, tier, verif_seed, indices, path, run_cfg, sample_every):
    signal.signal(signal.SIGALRM, _alarm)
    per_run_timeout = run_cfg.get("run_timeout", 60)
    with open(path, "a", buffering=1) as fh:
        for i in indices:
            run_seed = H(verif_seed, prop, i)
            fh.write(json.dumps({"start": i}) + "\n")
            fh.flush()
            res = None
            faulthandler.dump_traceback_later(per_run_timeout * 4, exit=True)
            signal.alarm(per_run_timeout)
            try:
                res = engine.generate_and_run(run_seed, prop, tier, run_cfg)
                signal.alarm(0)
                d = res.as_dict(keep_trace=(i % sample_every == 0))
            except RunTimeout:
                d = {"timeout": True, "stats": {}, "steps": 0, "states": [], "inter": []}
            except BaseException:  # harness error: never a VIOLATION
                signal.alarm(0)
                d = {
                    "error": traceback.format_exc(limit=12),
                    "stats": {},
                    "steps": 0,
                    "states": [],
                    "inter": [],
                }
            finally:
                signal.alarm(0)
                faulthandler.cancel_dump_traceback_later()
            d["i"] = i
            d["seed"] = run_seed
            fh.write(json.dumps(d, default=repr) + "\n")
            fh.flush()
            if d.get("violation") and os.environ.get("VERIF_STOP_ON_VIOLATION"):
                # tooling only (seed re-runs): the campaign ends as soon as enough failing runs exist
                open(os.path.join(os.path.dirname(path), "violation-%d-%d" % (os.getpid(), i)), "w").close()
    os._exit(0)


def run_campaign(engine, prop, tier, verif_seed, n_runs, run_cfg, wall_cap):
    """Run n_runs simulated runs over NPROC forked children.  Returns list of result dicts
    (ordered by run index) and a dict of campaign counters."""
    os.makedirs(OUT, exist_ok=True)
    tmpd = os.path.join(OUT, f"camp-{prop}-{tier}-{os.getpid()}")
    os.makedirs(tmpd, exist_ok=True)
    nproc = min(NPROC, max(1, n_runs))
    slices = {w: list(range(w, n_runs, nproc)) for w in range(nproc)}
    sample_every = max(1, n_runs // 8)
    t0 = time.time()
    live = {}  # pid -> w
    files = {w: os.path.join(tmpd, f"w{w}.jsonl") for w in range(nproc)}
    counters = Counter()
    attempt = Counter()

    def spawn(w, indices):
        sys.stdout.flush()
        sys.stderr.flush()
        pid = os.fork()
        if pid == 0:
            try:
                _child(
                    engine, prop, tier, verif_seed, indices, files[w], run_cfg, sample_every
                )
            finally:
                os._exit(3)
        live[pid] = w

    def done_indices(w):
        done, started = set(), None
        if os.path.exists(files[w]):
            for line in open(files[w]):
                try:
                    d = json.loads(line)
                except Exception:
                    continue
                if "start" in d:
                    started = d["start"]
                elif "i" in d:
                    done.add(d["i"])
                    started = None
        return done, started

    for w in range(nproc):
        spawn(w, slices[w])
    capped = False
    stop_now = False
    while live:
        try:
            pid, status = os.waitpid(-1, os.WNOHANG)
        except ChildProcessError:
            break
        if pid == 0:
            if os.environ.get("VERIF_STOP_ON_VIOLATION") and not capped and \
                    len([f for f in os.listdir(tmpd) if f.startswith("violation-")]) >= int(os.environ["VERIF_STOP_ON_VIOLATION"]):
                stop_now = True  # ends the campaign through the wall-cap path below
            if (stop_now or time.time() - t0 > wall_cap) and not capped:
                capped = True
                for p in list(live):
                    try:
                        os.kill(p, signal.SIGTERM)
                    except ProcessLookupError:
                        pass
            time.sleep(0.05)
            continue
        w = live.pop(pid, None)
        if w is None:
            continue
        if capped:
            continue
        done, started = done_indices(w)
        remaining = [i for i in slices[w] if i not in done and i != started]
        clean = os.WIFEXITED(status) and os.WEXITSTATUS(status) == 0
        if not clean:
            # the child died inside run `started` (GLPK abort, hard timeout): containment
            counters["child_deaths"] += 1
            if started is not None:
                with open(files[w], "a") as fh:
                    fh.write(
                        json.dumps(
                            {
                                "i": started,
                                "seed": H(verif_seed, prop, started),
                                "abort": True,
                                "status": status,
                                "stats": {},
                                "steps": 0,
                                "states": [],
                                "inter": [],
                            }
                        )
                        + "\n"
                    )
            attempt[w] += 1
            if remaining and attempt[w] < 50:
                spawn(w, remaining)
    counters["capped"] = int(capped)
    counters["wall_s"] = time.time() - t0

    def records():
        """Stream the per-run records (memory stays flat for multi-million-run campaigns)."""
        seen = set()
        for w in range(nproc):
            if os.path.exists(files[w]):
                with open(files[w]) as fh:
                    for line in fh:
                        try:
                            d = json.loads(line)
                        except Exception:
                            continue
                        if "i" in d and d["i"] not in seen:
                            seen.add(d["i"])
                            yield d
                os.unlink(files[w])
        for f in os.listdir(tmpd):
            if f.startswith("violation-"):
                os.unlink(os.path.join(tmpd, f))
        try:
            os.rmdir(tmpd)
        except OSError:
            pass

    return records(), counters


# ------------------------------------------------------------------------------------------
# replay files


def write_replay(prop, trace, violation, verif_seed, run_seed, minimised_from=None, tag=""):
    os.makedirs(REPLAYS, exist_ok=True)
    body = {
        "property": prop,
        "engine": trace.get("engine"),
        "oracle": violation["oracle"],
        "verif_seed": verif_seed,
        "run_seed": run_seed,
        "trace": trace,
        "violation": violation,
        "minimised_from": minimised_from,
    }
    body["digest"] = digest({"t": trace, "o": violation["oracle"]})
    name = f"{prop}-{run_seed:016x}-{violation['oracle']}{tag}.json"
    path = os.path.join(REPLAYS, name)
    with open(path, "w") as fh:
        json.dump(body, fh, indent=1, default=repr)
    return path


def replay_in_fresh_interpreter(path, prop):
    """Run `check <prop> --replay path` in a new interpreter; returns (reproduced, output)."""
    cmd = [sys.executable, os.path.join(VERIF, "check"), prop, "--replay", path]
    env = dict(os.environ)
    env["VERIF_QUIET"] = "1"
    try:
        p = subprocess.run(cmd, capture_output=True, text=True, timeout=300, env=env)
    except subprocess.TimeoutExpired:
        return False, "timeout"
    return p.returncode == 1 and "VIOLATION property=" in p.stdout, p.stdout + p.stderr


# ------------------------------------------------------------------------------------------
# evidence


def write_evidence(prop, tier, seed, level, coverage, wall_s, violations, assumptions, extra):
    os.makedirs(EVIDENCE, exist_ok=True)
    ev = {
        "property_id": prop,
        "tier": tier,
        "seed": int(seed),
        "level": level,
        "coverage": coverage,
        "assumptions": assumptions,
        "wall_s": round(wall_s, 2),
        "violations": int(violations),
    }
    ev.update(extra)
    # minimal schema self-check (jsonschema is not installed in /venv)
    cov = ev["coverage"]
    assert isinstance(cov.get("evaluations"), int) and cov["evaluations"] >= 1, "evaluations"
    assert isinstance(cov.get("distinct_nontrivial"), int), "distinct_nontrivial"
    assert isinstance(cov.get("rule"), str) and cov["rule"], "rule"
    assert isinstance(cov.get("samples"), list) and cov["samples"], "samples"
    path = os.path.join(EVIDENCE, f"{prop}.json")
    tmp = path + ".tmp"
    with open(tmp, "w") as fh:
        json.dump(ev, fh, indent=1, default=repr)
    os.replace(tmp, path)
    return path
