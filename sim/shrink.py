"""Trace minimisation: ddmin over the operation list, then engine-specific simplifications.

A candidate is kept iff replaying it yields a violation of the *same class* (oracle name).
Budget-capped.  No PRNG anywhere: replay is a pure function of the trace.
"""
from __future__ import annotations

import copy
import signal

from .core import RunTimeout


class Budget:
    def __init__(self, n):
        self.left = n
        self.used = 0

    def take(self):
        if self.left <= 0:
            return False
        self.left -= 1
        self.used += 1
        return True


def _fails(engine, trace, prop, oracle, run_cfg, budget):
    if not budget.take():
        return False
    signal.alarm(run_cfg.get("run_timeout", 60))
    try:
        res = engine.replay(trace, prop, run_cfg)
    except RunTimeout:
        return False
    except Exception:
        return False
    finally:
        signal.alarm(0)
    return bool(res.violation) and res.violation["oracle"] == oracle


def ddmin_list(items, test, budget):
    """Classic ddmin: smallest sub-list (order kept) for which test(sublist) is True."""
    n = 2
    items = list(items)
    while len(items) >= 2 and budget.left > 0:
        chunk = max(1, len(items) // n)
        subsets = [items[i : i + chunk] for i in range(0, len(items), chunk)]
        reduced = False
        # try complements (remove one chunk)
        for k in range(len(subsets)):
            cand = [x for j, s in enumerate(subsets) if j != k for x in s]
            if test(cand):
                items = cand
                n = max(n - 1, 2)
                reduced = True
                break
        if not reduced:
            if chunk == 1:
                break
            n = min(len(items), n * 2)
    if len(items) == 1 and budget.left > 0 and test([]):
        items = []
    return items


def shrink(engine, trace, prop, oracle, run_cfg, max_replays=400):
    budget = Budget(max_replays)
    best = copy.deepcopy(trace)

    for key in engine.SHRINK_LISTS:  # e.g. ("ops",) or ("ops", "faults")
        if not best.get(key):
            continue

        def test(cand, key=key):
            t = dict(best)
            t[key] = cand
            return _fails(engine, t, prop, oracle, run_cfg, budget)

        best[key] = ddmin_list(best[key], test, budget)

    # engine-specific simplification passes, repeated to a fixpoint within the budget
    progress = True
    while progress and budget.left > 0:
        progress = False
        for cand in engine.simplify(best):
            if budget.left <= 0:
                break
            if _fails(engine, cand, prop, oracle, run_cfg, budget):
                best = cand
                progress = True
                break
    return best, budget.used
