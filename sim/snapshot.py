"""Canonical snapshots of a cobra model: content, cross-references, objective, raw GLPK problem.

snap() never calls a cobrapy mutator (solver.update() only flushes optlang's pending queue,
which any later public call would do as well).
"""
from __future__ import annotations

import math

import swiglpk as glp

from . import gprtree
from .core import Violation

_TT_CACHE = {}


DBLMAX_AS_INF = False  # switched on only while the known finding optlang-dblmax is open and reproduces
_DBLMAX = 1.7976931348623157e308


def _num(x):
    if x is None:
        return None
    if isinstance(x, bool):
        return x
    if isinstance(x, (int, float)):
        x = float(x)
        if math.isinf(x) or (DBLMAX_AS_INF and abs(x) == _DBLMAX):
            return "inf" if x > 0 else "-inf"
        if math.isnan(x):
            return "nan"
        if x == 0:
            return 0.0
        return x
    try:
        return _num(float(x))
    except Exception:
        return repr(x)


def _plain(o):
    """Deep plain copy of notes/annotation style values."""
    if isinstance(o, dict):
        return {str(k): _plain(v) for k, v in sorted(o.items(), key=lambda kv: str(kv[0]))}
    if isinstance(o, (list, tuple)):
        return [_plain(v) for v in o]
    if isinstance(o, (str, int, float, bool)) or o is None:
        return o
    return repr(o)


def rule_table(rxn):
    """(sorted gene ids of the rule text, truth table) as observed through the public API."""
    text = rxn.gene_reaction_rule
    hit = _TT_CACHE.get(text)
    if hit is not None:
        return hit
    try:
        tree = gprtree.parse(text)
        ids = sorted(gprtree.genes(tree))
    except ValueError:
        ids = sorted(g.id for g in rxn.genes)
    gpr = rxn.gpr
    tt = gprtree.table_from_eval(ids, lambda absent: bool(gpr.eval(absent)))
    res = (ids, tt)
    if len(_TT_CACHE) < 20000:
        _TT_CACHE[text] = res
    return res


# ------------------------------------------------------------------------------------------
# raw GLPK problem


def read_glpk(model):
    """Read the LP straight from GLPK (independent of optlang's Python-side caches)."""
    solver = model.solver
    solver.update()
    P = solver.problem
    ncols = glp.glp_get_num_cols(P)
    nrows = glp.glp_get_num_rows(P)
    cols, names = {}, [None] * (ncols + 1)
    for j in range(1, ncols + 1):
        name = glp.glp_get_col_name(P, j)
        names[j] = name
        t = glp.glp_get_col_type(P, j)
        lb = glp.glp_get_col_lb(P, j) if t in (glp.GLP_LO, glp.GLP_DB, glp.GLP_FX) else -math.inf
        ub = glp.glp_get_col_ub(P, j) if t in (glp.GLP_UP, glp.GLP_DB, glp.GLP_FX) else math.inf
        if name in cols:
            name = f"{name}#dup{j}"
        cols[name] = [_num(lb), _num(ub), glp.glp_get_col_kind(P, j), _num(glp.glp_get_obj_coef(P, j))]
    rows = {}
    ind = glp.intArray(ncols + 1)
    val = glp.doubleArray(ncols + 1)
    for i in range(1, nrows + 1):
        name = glp.glp_get_row_name(P, i)
        t = glp.glp_get_row_type(P, i)
        lb = glp.glp_get_row_lb(P, i) if t in (glp.GLP_LO, glp.GLP_DB, glp.GLP_FX) else -math.inf
        ub = glp.glp_get_row_ub(P, i) if t in (glp.GLP_UP, glp.GLP_DB, glp.GLP_FX) else math.inf
        n = glp.glp_get_mat_row(P, i, ind, val)
        coefs = {}
        for k in range(1, n + 1):
            v = val[k]
            if v != 0:
                coefs[names[ind[k]]] = _num(v)
        if name in rows:
            name = f"{name}#dup{i}"
        rows[name] = [_num(lb), _num(ub), dict(sorted(coefs.items()))]
    return {
        "cols": cols,
        "rows": rows,
        "dir": "max" if glp.glp_get_obj_dir(P) == glp.GLP_MAX else "min",
        "c0": _num(glp.glp_get_obj_coef(P, 0)),
    }


# ------------------------------------------------------------------------------------------
# content


def content(model):
    rx = {}
    try:
        from cobra.util.solver import linear_reaction_coefficients

        lin = {r.id: float(c) for r, c in linear_reaction_coefficients(model).items()}
    except Exception as e:  # reported by the LP mirror oracle
        lin = {"#error": repr(e)}
    for r in model.reactions:
        ids, tt = rule_table(r)
        rx[r.id] = {
            "lb": _num(r.lower_bound),
            "ub": _num(r.upper_bound),
            "mets": dict(sorted((m.id, _num(c)) for m, c in r._metabolites.items())),
            "rule_genes": ids,
            "rule_tt": tt,
            "genes": sorted(g.id for g in r._genes),
            "obj": lin.get(r.id, 0.0),
            "name": r.name,
            "subsystem": r.subsystem,
            "notes": _plain(r.notes),
            "annotation": _plain(r.annotation),
        }
    mets = {}
    for m in model.metabolites:
        mets[m.id] = {
            "name": m.name,
            "formula": m.formula,
            "charge": _num(m.charge),
            "compartment": m.compartment,
            "reactions": sorted(r.id for r in m._reaction),
            "notes": _plain(m.notes),
            "annotation": _plain(m.annotation),
        }
    genes = {}
    for g in model.genes:
        genes[g.id] = {
            "name": g.name,
            "functional": g.functional,
            "reactions": sorted(r.id for r in g._reaction),
            "notes": _plain(g.notes),
            "annotation": _plain(g.annotation),
        }
    groups = {}
    for grp in model.groups:
        groups[grp.id] = {
            "name": grp.name,
            "kind": grp.kind,
            "members": sorted([type(x).__name__, str(x.id)] for x in grp.members),
        }
    return {
        "id": model.id,
        "name": model.name,
        "compartments": _plain(model.compartments),
        "notes": _plain(model.notes),
        "annotation": _plain(model.annotation),
        "reactions": rx,
        "metabolites": mets,
        "genes": genes,
        "groups": groups,
    }


def objective(model):
    try:
        expr = model.solver.objective.expression
        cd = expr.as_coefficients_dict()
        coefs = {}
        for k, v in cd.items():
            name = getattr(k, "name", str(k))
            if float(v) != 0:
                coefs[name] = _num(float(v))
        lin = bool(model.solver.objective.is_Linear)
    except Exception as e:
        coefs, lin = {"#error": repr(e)}, False
    return {"coefs": dict(sorted(coefs.items())), "direction": model.solver.objective.direction, "linear": lin}


def order(model):
    return {
        "reactions": [r.id for r in model.reactions],
        "metabolites": [m.id for m in model.metabolites],
        "genes": [g.id for g in model.genes],
        "groups": [g.id for g in model.groups],
    }


def _solver_tolerances(model):
    """What the solver itself is configured with (Model.tolerance sets all of them; a copy must carry all of them)."""
    out = {}
    try:
        tol = model.solver.configuration.tolerances
    except Exception:
        return out
    for name in ("feasibility", "optimality", "integrality"):
        try:
            out[name] = float(getattr(tol, name))
        except Exception:
            pass
    return out


def snap(model, lp=True):
    s = {
        "content": content(model),
        "order": order(model),
        "objective": objective(model),
        "cfg": {
            "interface": model.solver.interface.__name__,
            "tolerance": model.tolerance,
            "solver_tolerances": _solver_tolerances(model),
            "depth": len(getattr(model, "_contexts", []) or []),
        },
    }
    if lp:
        s["lp"] = read_glpk(model)
    return s


# ------------------------------------------------------------------------------------------
# diff


def _close(a, b, rel):
    if a == b:
        return True
    if rel and isinstance(a, float) and isinstance(b, float):
        return abs(a - b) <= rel * max(1.0, abs(a), abs(b))
    return False


def diff(a, b, path="", rel=0.0, out=None, limit=12):
    """Path-addressed differences between two snapshots (numbers compared with `rel`)."""
    if out is None:
        out = []
    if len(out) >= limit:
        return out
    if isinstance(a, dict) and isinstance(b, dict):
        for k in sorted(set(a) | set(b), key=str):
            if k not in a:
                out.append(f"{path}/{k}: missing on left (right={_short(b[k])})")
            elif k not in b:
                out.append(f"{path}/{k}: missing on right (left={_short(a[k])})")
            else:
                diff(a[k], b[k], f"{path}/{k}", rel, out, limit)
            if len(out) >= limit:
                break
    elif isinstance(a, list) and isinstance(b, list):
        if len(a) != len(b):
            out.append(f"{path}: {_short(a)} != {_short(b)}")
        else:
            for i, (x, y) in enumerate(zip(a, b)):
                diff(x, y, f"{path}[{i}]", rel, out, limit)
    elif not _close(a, b, rel):
        out.append(f"{path}: {_short(a)} != {_short(b)}")
    return out


def _short(x):
    s = repr(x)
    return s if len(s) < 160 else s[:157] + "..."


def without_order(s):
    return {k: v for k, v in s.items() if k != "order"}


# ------------------------------------------------------------------------------------------
# cross-reference invariants (C02)


def xref_problems(model):
    """Identity-level cross-reference invariants; returns a list of problem strings."""
    out = []
    for name in ("reactions", "metabolites", "genes", "groups"):
        dl = getattr(model, name)
        ids = [x.id for x in dl]
        if len(set(ids)) != len(ids):
            out.append(f"{name}: duplicate ids {ids}")
        for pos, x in enumerate(dl):
            try:
                if dl.get_by_id(x.id) is not x or dl.index(x.id) != pos:
                    out.append(f"{name}: index of {x.id} stale")
            except Exception as e:
                out.append(f"{name}: lookup of {x.id} fails: {e!r}")
            if getattr(x, "_model", None) is not model:
                out.append(f"{name}: {x.id}.model is not the model")
        if len(dl._dict) != len(dl):
            out.append(f"{name}: index has {len(dl._dict)} entries for {len(dl)} elements")
    for r in model.reactions:
        for m, c in r._metabolites.items():
            if c == 0:
                out.append(f"reaction {r.id}: zero coefficient for {m.id}")
            if not model.metabolites.has_id(m.id):
                out.append(f"reaction {r.id}: metabolite {m.id} not in model")
            elif model.metabolites.get_by_id(m.id) is not m:
                out.append(f"reaction {r.id}: metabolite {m.id} is not the model's object")
            if r not in m._reaction:
                out.append(f"reaction {r.id} lists {m.id} but not vice versa")
        for g in r._genes:
            if not model.genes.has_id(g.id):
                out.append(f"reaction {r.id}: gene {g.id} not in model")
            elif model.genes.get_by_id(g.id) is not g:
                out.append(f"reaction {r.id}: gene {g.id} is not the model's object")
            if r not in g._reaction:
                out.append(f"reaction {r.id} lists gene {g.id} but not vice versa")
        try:
            want = sorted(gprtree.genes(gprtree.parse(r.gene_reaction_rule)))
        except ValueError:
            want = None
        if want is not None and sorted(g.id for g in r._genes) != want:
            out.append(f"reaction {r.id}: genes {sorted(g.id for g in r._genes)} != genes of rule '{r.gene_reaction_rule}'")
    for m in model.metabolites:
        for r in m._reaction:
            if not model.reactions.has_id(r.id) or model.reactions.get_by_id(r.id) is not r:
                out.append(f"metabolite {m.id} lists reaction {r.id} which is not in the model")
            elif m not in r._metabolites:
                out.append(f"metabolite {m.id} lists {r.id} but not vice versa")
    for g in model.genes:
        for r in g._reaction:
            if not model.reactions.has_id(r.id) or model.reactions.get_by_id(r.id) is not r:
                out.append(f"gene {g.id} lists reaction {r.id} which is not in the model")
            elif g not in r._genes:
                out.append(f"gene {g.id} lists {r.id} but not vice versa")
    for grp in model.groups:
        for x in grp.members:
            lst = {"Reaction": model.reactions, "Metabolite": model.metabolites, "Gene": model.genes,
                   "Group": model.groups}.get(type(x).__name__)
            if lst is None or not lst.has_id(x.id) or lst.get_by_id(x.id) is not x:
                out.append(f"group {grp.id}: member {x.id} is not in the model")
    return out


# ------------------------------------------------------------------------------------------
# LP mirror (C01): raw GLPK problem == flux-balance problem of the Python-side model + user objects


def _inf(x):
    return {"inf": math.inf, "-inf": -math.inf}.get(x, x)


def lp_mirror_problems(model, user, lp=None):
    """`user`: {name: {"kind": "var"|"con", "lb":, "ub":, "coefs": {col: c}}} explicitly added objects.
    Returns a list of problem strings."""
    out = []
    try:
        lp = lp or read_glpk(model)
    except Exception as e:
        return [f"solver.update()/read-back raised {e!r}"]
    cols, rows = dict(lp["cols"]), dict(lp["rows"])
    from cobra.util.solver import linear_reaction_coefficients

    obj = objective(model)
    try:
        lin = {r.id: c for r, c in linear_reaction_coefficients(model).items()}
        reaction_style = obj["linear"] and set(obj["coefs"]) <= {
            n for r in model.reactions for n in (r.id, r.reverse_id)
        } and all(obj["coefs"].get(r.id, 0.0) == -obj["coefs"].get(r.reverse_id, 0.0) for r in model.reactions)
    except Exception as e:
        out.append(f"objective cannot be read: {e!r}")
        lin, reaction_style = {}, False
    want_obj = {}
    for r in model.reactions:
        f, v = cols.pop(r.id, None), cols.pop(r.reverse_id, None)
        if f is None or v is None:
            out.append(f"reaction {r.id}: column missing in solver ({'forward' if f is None else 'reverse'})")
            continue
        lo = _inf(f[0]) - _inf(v[1])
        hi = _inf(f[1]) - _inf(v[0])
        if (lo, hi) != (float(r.lower_bound), float(r.upper_bound)):
            out.append(f"reaction {r.id}: solver net flux range ({lo}, {hi}) != bounds {r.bounds}")
        if f[2] != glp.GLP_CV or v[2] != glp.GLP_CV:
            out.append(f"reaction {r.id}: column is not continuous")
        c = lin.get(r.id, 0.0)
        if reaction_style:
            want_obj[r.id] = c
            want_obj[r.reverse_id] = -c if c else 0.0
    for m in model.metabolites:
        row = rows.pop(m.id, None)
        if row is None:
            out.append(f"metabolite {m.id}: row missing in solver")
            continue
        if (row[0], row[1]) != (0.0, 0.0):
            out.append(f"metabolite {m.id}: row bounds {row[:2]} != (0, 0)")
        want = {}
        for r in m._reaction:
            c = r._metabolites.get(m)
            if c is None or not model.reactions.has_id(r.id):
                continue
            want[r.id] = _num(c)
            want[r.reverse_id] = _num(-c)
        want = {k: v for k, v in want.items() if v != 0}
        # a user variable may have been put into a metabolite row explicitly (add_lp_feasibility does that)
        uvars = {n for n, u in (user or {}).items() if u["kind"] == "var"}
        got_row = {k: v for k, v in row[2].items() if k not in uvars}
        if want != got_row:
            out.append(f"metabolite {m.id}: row coefficients {row[2]} != stoichiometry {dict(sorted(want.items()))}")
    # everything else must be a user-added object
    for name, u in (user or {}).items():
        if u["kind"] == "var":
            col = cols.pop(name, None)
            if col is None:
                out.append(f"user variable {name} missing in solver")
            elif diff([col[0], col[1]], [_num(u["lb"]), _num(u["ub"])], rel=1e-12):
                out.append(f"user variable {name}: bounds {col[:2]} != {[u['lb'], u['ub']]}")
        else:
            row = rows.pop(name, None)
            if row is None:
                out.append(f"user constraint {name} missing in solver")
            else:
                if diff([row[0], row[1]], [_num(u["lb"]), _num(u["ub"])], rel=1e-12):
                    out.append(f"user constraint {name}: bounds {row[:2]} != {[u['lb'], u['ub']]}")
                wc = {k: _num(v) for k, v in u["coefs"].items() if v != 0}
                if diff(dict(sorted(wc.items())), row[2], rel=1e-12):
                    out.append(f"user constraint {name}: coefficients {row[2]} != {wc}")
    for name in cols:
        out.append(f"solver has column '{name}' that is neither a reaction variable nor user-added")
    for name in rows:
        out.append(f"solver has row '{name}' that is neither a metabolite nor user-added")
    # objective
    if lp["dir"] != model.objective_direction:
        out.append(f"solver direction {lp['dir']} != reported {model.objective_direction}")
    got = {n: c[3] for n, c in lp["cols"].items() if c[3] != 0}
    if reaction_style:
        want = {k: _num(v) for k, v in want_obj.items() if v != 0}
    else:
        want = {k: v for k, v in obj["coefs"].items() if not k.startswith("#")}
    if "#error" not in obj["coefs"] and dict(sorted(got.items())) != dict(sorted(want.items())):
        out.append(f"solver objective coefficients {got} != reported {want}")
    return out


def check(oracle, problems, extra=None):
    if problems:
        d = {"problems": problems[:8]}
        if extra:
            d.update(extra)
        raise Violation(oracle, d)
