"""Gene-rule trees owned by the simulator (independent of cobrapy's parser/evaluator).

tree := None (empty rule) | "gene_id" | ["and", t, t, ...] | ["or", t, t, ...]
"""
from __future__ import annotations

import itertools
import re

_TOK = re.compile(r"\s*(\(|\)|[^\s()]+)")


def genes(tree):
    if tree is None:
        return set()
    if isinstance(tree, str):
        return {tree}
    out = set()
    for t in tree[1:]:
        out |= genes(t)
    return out


def evaluate(tree, absent) -> bool:
    """True iff the rule can still be satisfied with the genes in `absent` knocked out."""
    if tree is None:
        return True
    if isinstance(tree, str):
        return tree not in absent
    if tree[0] == "and":
        return all(evaluate(t, absent) for t in tree[1:])
    return any(evaluate(t, absent) for t in tree[1:])


def truth_table(tree) -> str:
    """Canonical truth table over the sorted gene set: one char per subset of absent genes."""
    gs = sorted(genes(tree))
    if len(gs) > 8:
        gs = gs[:8]
    out = []
    for mask in range(1 << len(gs)):
        absent = {g for i, g in enumerate(gs) if mask >> i & 1}
        out.append("1" if evaluate(tree, absent) else "0")
    return "".join(out)


def table_from_eval(gene_ids, evalfn) -> str:
    gs = sorted(gene_ids)[:8]
    out = []
    for mask in range(1 << len(gs)):
        absent = {g for i, g in enumerate(gs) if mask >> i & 1}
        out.append("1" if evalfn(absent) else "0")
    return "".join(out)


def parse(text):
    """Parse and/or/&/| text with parentheses into a tree (None for empty).  Raises ValueError."""
    if text is None:
        return None
    toks = _TOK.findall(text)
    if not toks:
        return None
    pos = [0]

    def peek():
        return toks[pos[0]] if pos[0] < len(toks) else None

    def eat():
        t = toks[pos[0]]
        pos[0] += 1
        return t

    def is_or(t):
        return t is not None and t.lower() in ("or", "|")

    def is_and(t):
        return t is not None and t.lower() in ("and", "&")

    def atom():
        t = peek()
        if t is None:
            raise ValueError("unexpected end")
        if t == "(":
            eat()
            e = expr_or()
            if peek() != ")":
                raise ValueError("missing )")
            eat()
            return e
        if t == ")" or is_or(t) or is_and(t):
            raise ValueError(f"unexpected {t}")
        return eat()

    def expr_and():
        items = [atom()]
        while is_and(peek()):
            eat()
            items.append(atom())
        return items[0] if len(items) == 1 else ["and"] + items

    def expr_or():
        items = [expr_and()]
        while is_or(peek()):
            eat()
            items.append(expr_and())
        return items[0] if len(items) == 1 else ["or"] + items

    e = expr_or()
    if peek() is not None:
        raise ValueError(f"trailing {peek()}")
    return e


def spell(tree, rng, top=True) -> str:
    """A random spelling of the tree (operator case, redundant parentheses)."""
    if tree is None:
        return ""
    if isinstance(tree, str):
        return f"({tree})" if rng.random() < 0.1 else tree
    style = rng.choice(["lower", "lower", "upper", "sym"])
    op = {"lower": {"and": "and", "or": "or"}, "upper": {"and": "AND", "or": "OR"},
          "sym": {"and": "&", "or": "|"}}[style][tree[0]]
    parts = [spell(t, rng, False) for t in tree[1:]]
    s = f" {op} ".join(parts)
    if not top or rng.random() < 0.2:
        s = f"({s})"
    return s


def plain(tree, top=True) -> str:
    if tree is None:
        return ""
    if isinstance(tree, str):
        return tree
    s = f" {tree[0]} ".join(plain(t, False) for t in tree[1:])
    return s if top else f"({s})"


def random_tree(rng, alphabet, depth=3):
    if depth <= 0 or rng.random() < 0.35:
        return rng.choice(alphabet)
    n = rng.choice([2, 2, 2, 3])
    return [rng.choice(["and", "or"])] + [random_tree(rng, alphabet, depth - 1) for _ in range(n)]


def substitute(tree, mapping):
    if tree is None:
        return None
    if isinstance(tree, str):
        return mapping.get(tree, tree)
    return [tree[0]] + [substitute(t, mapping) for t in tree[1:]]


def remove(tree, gone):
    """Rule with the genes in `gone` absent, simplified: returns (tree_or_None, still_satisfiable)."""
    if tree is None:
        return None, True
    if isinstance(tree, str):
        return (None, False) if tree in gone else (tree, True)
    subs = [remove(t, gone) for t in tree[1:]]
    if tree[0] == "and":
        if not all(ok for _, ok in subs):
            return None, False
        keep = [t for t, ok in subs if t is not None]
    else:
        keep = [t for t, ok in subs if ok and t is not None]
        if not keep:
            return None, False
    if len(keep) == 1:
        return keep[0], True
    return [tree[0]] + keep, True
