"""Seams: every nondeterminism source the properties depend on is owned here.

All seams are harness-side monkeypatches (no hook in /repo).  install() is idempotent;
reset_world(streams) is called at the start of every run so that a run's outcome does not
depend on which runs preceded it in the same worker process.
"""
from __future__ import annotations

import itertools
import logging
import os
import shutil
import tempfile
import warnings

_installed = False
_state = {"salt": 0, "seq": itertools.count(1), "uuid": itertools.count(1), "clock": 0.0, "tmp": None}


class _FakeUUID:
    def __init__(self, n):
        self.n = n

    def __str__(self):
        return f"00000000-0000-0000-0000-{self.n:012d}"

    @property
    def hex(self):
        return f"{self.n:032d}"


def _uuid1(*a, **k):
    return _FakeUUID(next(_state["uuid"]))


def _obj_hash(self):
    d = self.__dict__
    s = d.get("_vseq")
    if s is None:
        s = d["_vseq"] = next(_state["seq"])
    return hash((_state["salt"], s))


def sim_time():
    _state["clock"] += 1.0
    return 1_700_000_000.0 + _state["clock"]


def install():
    global _installed
    if _installed:
        return
    _installed = True
    warnings.filterwarnings("ignore")
    logging.disable(logging.CRITICAL)
    import cobra  # noqa: F401
    import optlang.interface as oi
    from cobra.core.object import Object

    # address-based hashing -> seeded, replayable hashing (set iteration order over cobra
    # objects becomes a schedule dimension owned by the simulator)
    Object.__hash__ = _obj_hash
    # The sequence number lives in the instance dict; it must not travel with pickled / deep-copied state: an object that is hashed
    # while it is still being unpickled (the root of a pickle inside a set of its own model) would otherwise change its hash when
    # its state arrives - an artefact of this seam, real objects hash by identity.  Copies get their own number at first use.
    import cobra.core as cc

    seen = set()

    def _wrap(cls):
        gs = cls.__dict__.get("__getstate__")
        if gs is None or getattr(gs, "_vseq_wrapped", False):
            return

        def __getstate__(self, _gs=gs):
            st = _gs(self)
            if isinstance(st, dict) and "_vseq" in st:
                st = dict(st)
                st.pop("_vseq", None)
            return st

        __getstate__._vseq_wrapped = True
        cls.__getstate__ = __getstate__

    stack = [Object]
    while stack:
        c = stack.pop()
        if c in seen:
            continue
        seen.add(c)
        _wrap(c)
        stack.extend(c.__subclasses__())
    # uuid1 names of optlang objectives/constraints -> per-run counter

    class _U:
        uuid1 = staticmethod(_uuid1)
        uuid4 = staticmethod(_uuid1)

    oi.uuid = _U
    try:
        import cobra.sampling.hr_sampler as hr

        if hasattr(hr, "time"):
            hr.time = sim_time
    except Exception:  # pragma: no cover
        pass


def reset_world(streams=None):
    """Restore every process-global the library reads; reseed owned PRNGs."""
    install()
    import numpy as np
    from cobra.core.configuration import Configuration

    cfg = Configuration()
    cfg.solver = "glpk"
    cfg.tolerance = 1e-07
    cfg.lower_bound = -1000.0
    cfg.upper_bound = 1000.0
    cfg.processes = 1
    _state["seq"] = itertools.count(1)
    _state["uuid"] = itertools.count(1)
    _state["clock"] = 0.0
    _state["salt"] = streams("hash").getrandbits(32) if streams else 0
    np.random.seed(streams("np").getrandbits(32) if streams else 0)
    # worker-global names of the analysis modules
    import cobra.flux_analysis.deletion as dele
    import cobra.flux_analysis.variability as var

    for mod, names in ((var, ("_model", "_loopless")), (dele, ("_model",))):
        for n in names:
            mod.__dict__.pop(n, None)
    try:
        import cobra.sampling.optgp as og

        og.__dict__.pop("sampler", None)
    except Exception:  # pragma: no cover
        pass
    new_tmp()


def new_tmp():
    old = _state.get("tmp")
    if old and os.path.isdir(old):
        shutil.rmtree(old, ignore_errors=True)
    base = "/dev/shm" if os.path.isdir("/dev/shm") else None
    d = tempfile.mkdtemp(prefix="verif-run-", dir=base)
    _state["tmp"] = d
    tempfile.tempdir = d
    os.environ["TMPDIR"] = d
    return d


def cleanup_tmp():
    old = _state.get("tmp")
    if old and os.path.isdir(old):
        shutil.rmtree(old, ignore_errors=True)
    _state["tmp"] = None
    tempfile.tempdir = None
