"""SimPool: multiprocessing.Pool inside one process, under a seeded discrete-event scheduler,
plus the solver-verdict injector.  See DESIGN 2.4 / 2.5.

Everything a run decides (which idle worker takes the next chunk, virtual durations, tie breaks)
goes through SimContext.decide(label, ...): in generation mode the value is drawn from the run's
labelled PRNG stream and recorded; in replay mode it is read back from the trace (a missing or
invalid entry falls back to the default decision, which is what the shrinker substitutes).
"""
from __future__ import annotations

import ast
import heapq
import inspect
import io
import pickle
import sys
import weakref

WORKER_MODULES = (
    "cobra.flux_analysis.variability",
    "cobra.flux_analysis.deletion",
    "cobra.sampling.optgp",
)

CTX = None  # the active SimContext (one per run)


class SimContext:
    def __init__(self, streams=None, schedule=None, stats=None):
        self.streams = streams  # None in replay mode
        self.recorded = {}  # label -> [values] (what this run decided)
        self.replay = schedule  # label -> [values] or None
        self.cursor = {}
        self.stats = stats if stats is not None else {}
        self.solver_calls = 0  # per analysis call; reset by the engine
        self.fault = None  # {"k": int, "verdict": str} or None
        self.fault_fired = 0
        self.current_worker = None  # None = parent
        self.clock = 0.0
        self.interleavings = []
        self.pools = 0
        self.call_log = []  # (k, worker) of solver calls in the current analysis call
        self.verdict_log = []

    def bump(self, key, n=1):
        self.stats[key] = self.stats.get(key, 0) + n

    def decide(self, label, draw, default, valid=None):
        """draw: fn(rng) -> value; default: value used when replay has nothing valid."""
        if self.replay is not None:
            i = self.cursor.get(label, 0)
            self.cursor[label] = i + 1
            seq = self.replay.get(label) or []
            v = seq[i] if i < len(seq) else None
            if v is None or (valid is not None and not valid(v)):
                v = default
        else:
            v = draw(self.streams(label))
        self.recorded.setdefault(label, []).append(v)
        return v


def worker_global_names(modname):
    """Names a module assigns through `global` statements = its per-process worker state."""
    mod = sys.modules.get(modname)
    if mod is None:
        try:
            mod = __import__(modname, fromlist=["x"])
        except Exception:
            return None, ()
    cache = getattr(worker_global_names, "_cache", None)
    if cache is None:
        cache = worker_global_names._cache = {}
    if modname not in cache:
        names = set()
        try:
            tree = ast.parse(inspect.getsource(mod))
            for node in ast.walk(tree):
                if isinstance(node, ast.Global):
                    names.update(node.names)
        except Exception:
            pass
        cache[modname] = tuple(sorted(names))
    return mod, cache[modname]


_MISSING = object()


class _Worker:
    def __init__(self, wid):
        self.wid = wid
        self.globals = {}  # (modname, name) -> value ; absent = unset in this address space
        self.initialised = False
        self.np_state = None
        self.tasks = []  # chunk indices executed, in order


def _roundtrip(obj):
    return pickle.loads(pickle.dumps(obj, protocol=pickle.HIGHEST_PROTOCOL))


# ---- memory that forked workers really share ------------------------------------------------
# cobra.sampling.hr_sampler.shared_np_array allocates from multiprocessing's shared heap.  With the fork start method
# (the default wherever cobrapy does not take its Windows path) a worker inherits the parent's address space as a private
# copy EXCEPT for these buffers, which every worker and the parent keep mapping.  The simulated pool therefore hands each
# worker a deep copy of the initializer arguments in which exactly these arrays are the parent's own objects.
SHARED = weakref.WeakValueDictionary()  # id(array) -> array ; arrays returned by shared_np_array and still alive
_orig_shared = None


def _shared_np_array_wrapper(*a, **k):
    arr = _orig_shared(*a, **k)
    if CTX is not None:
        SHARED[id(arr)] = arr
        CTX.bump("probe:shared_memory_array_created")
    return arr


class _ForkPickler(pickle.Pickler):
    def __init__(self, buf, table):
        super().__init__(buf, protocol=pickle.HIGHEST_PROTOCOL)
        self.table = table

    def persistent_id(self, obj):
        if SHARED.get(id(obj)) is obj:
            self.table[id(obj)] = obj
            return id(obj)
        return None


class _ForkUnpickler(pickle.Unpickler):
    def __init__(self, buf, table):
        super().__init__(buf)
        self.table = table

    def persistent_load(self, pid):
        return self.table[pid]


def _fork_dumps(obj):
    buf, table = io.BytesIO(), {}
    _ForkPickler(buf, table).dump(obj)
    return buf.getvalue(), table


def _fork_loads(blob_table):
    blob, table = blob_table
    return _ForkUnpickler(io.BytesIO(blob), table).load()


class SimPool:
    """Drop-in for multiprocessing.Pool as cobrapy uses it."""

    def __init__(self, processes=None, initializer=None, initargs=(), maxtasksperchild=None, **kw):
        import numpy as np

        self.ctx = CTX
        if self.ctx is None:
            raise RuntimeError("SimPool used outside a simulation run")
        self.processes = processes or 16
        if self.processes < 1:
            raise ValueError("Number of processes must be at least 1")
        self.initializer = initializer
        # the arguments of the initializer are serialised once, when the workers are started
        self.initargs_blob = _fork_dumps(tuple(initargs))
        self.workers = [_Worker(i) for i in range(self.processes)]
        parent_np = np.random.get_state()
        for w in self.workers:
            w.np_state = parent_np  # fork semantics: every child starts with the parent's RNG state
        self.closed = False
        self.terminated = False
        self.joined = False
        self.ctx.pools += 1
        self.ctx.bump("probe:pool_created")
        self.ctx.bump(f"pool_processes:{self.processes}")

    # ---- address-space switch -------------------------------------------------------------
    def _enter_worker(self, w):
        import numpy as np

        saved = {}
        for modname in WORKER_MODULES:
            mod, names = worker_global_names(modname)
            if mod is None:
                continue
            for n in names:
                saved[(modname, n)] = mod.__dict__.get(n, _MISSING)
                v = w.globals.get((modname, n), _MISSING)
                if v is _MISSING:
                    mod.__dict__.pop(n, None)
                else:
                    mod.__dict__[n] = v
        saved_np = np.random.get_state()
        np.random.set_state(w.np_state)
        self.ctx.current_worker = w.wid
        return saved, saved_np

    def _leave_worker(self, w, token):
        import numpy as np

        saved, saved_np = token
        for (modname, n), old in saved.items():
            mod = sys.modules[modname]
            cur = mod.__dict__.get(n, _MISSING)
            if cur is _MISSING:
                w.globals.pop((modname, n), None)
            else:
                w.globals[(modname, n)] = cur
            if old is _MISSING:
                mod.__dict__.pop(n, None)
            else:
                mod.__dict__[n] = old
        w.np_state = np.random.get_state()
        np.random.set_state(saved_np)
        self.ctx.current_worker = None

    def _run_chunk(self, w, func, items):
        token = self._enter_worker(w)
        try:
            if not w.initialised:
                w.initialised = True
                if self.initializer is not None:
                    self.initializer(*_fork_loads(self.initargs_blob))
            out = []
            for item in items:
                try:
                    arg = _roundtrip(item)
                    out.append(_roundtrip(func(arg)))
                except Exception as e:  # the whole chunk is lost, as in CPython's Pool
                    return ("exc", e)
            return ("ok", out)
        finally:
            self._leave_worker(w, token)

    # ---- scheduling -----------------------------------------------------------------------
    def _schedule(self, func, iterable, chunksize):
        if self.closed or self.terminated:
            raise ValueError("Pool not running")
        items = list(iterable)
        if chunksize is None or chunksize < 1:
            if chunksize is not None and chunksize < 1:
                raise ValueError("Chunksize must be 1+, not {0:n}".format(chunksize))
            chunksize = 1
        chunks = [items[i: i + chunksize] for i in range(0, len(items), chunksize)]
        ctx = self.ctx
        idle = list(range(self.processes))
        events = []
        t = ctx.clock
        completed = []  # (chunk_index, status, payload) in completion order
        queue = list(range(len(chunks)))
        per_worker = {}
        # Chunks that overlap in virtual time are concurrent: their effects on memory the workers share may land in any
        # order.  Two serialisations are sampled: each chunk takes effect when it starts, or when it completes.
        exec_at = ctx.decide("pool.exec_at", lambda r: "finish" if r.random() < 0.5 else "start", "start",
                             valid=lambda v: v in ("start", "finish"))
        while queue or events:
            while queue and idle:
                ci = queue.pop(0)
                opts = sorted(idle)
                wid = ctx.decide("pool.assign", lambda r: r.choice(opts), opts[0], valid=lambda v: v in opts)
                idle.remove(wid)

                def draw_dur(r, n=len(chunks[ci])):
                    x = r.random()
                    f = 50.0 if x < 0.03 else 5.0 if x < 0.13 else 1.0
                    return round(n * f * r.uniform(0.5, 1.5), 3)

                dur = ctx.decide("pool.delay", draw_dur, float(len(chunks[ci])),
                                 valid=lambda v: isinstance(v, (int, float)) and v >= 0)
                if dur >= 20 * max(1, len(chunks[ci])):
                    ctx.bump("probe:stalled_worker")
                w = self.workers[wid]
                if w.tasks:
                    ctx.bump("probe:worker_ran_2+_chunks")
                w.tasks.append(ci)
                per_worker.setdefault(wid, []).append(ci)
                status, payload = self._run_chunk(w, func, chunks[ci]) if exec_at == "start" else (None, None)
                tie = ctx.decide("pool.tie", lambda r: round(r.random(), 6), 0.0,
                                 valid=lambda v: isinstance(v, (int, float)))
                heapq.heappush(events, (t + dur, tie, ci, wid, status, payload))
            ft, _, ci, wid, status, payload = heapq.heappop(events)
            if status is None:
                status, payload = self._run_chunk(self.workers[wid], func, chunks[ci])
            t = ft
            idle.append(wid)
            completed.append((ci, status, payload))
        ctx.clock = t
        order = [ci for ci, _, _ in completed]
        if order != sorted(order):
            ctx.bump("probe:completion_order_differs_from_submission")
        if chunks and len(chunks[-1]) < chunksize:
            ctx.bump("probe:chunk_tail_shorter")
        if any(s == "exc" for _, s, _ in completed):
            ctx.bump("probe:chunk_failed")
        ctx.interleavings.append((tuple(sorted((w, tuple(c)) for w, c in per_worker.items())), tuple(order)))
        # protocol invariant: every submitted chunk completed exactly once
        assert sorted(order) == list(range(len(chunks))), "SimPool lost a chunk"
        return chunks, completed

    def imap_unordered(self, func, iterable, chunksize=1):
        chunks, completed = self._schedule(func, iterable, chunksize)
        return _ResultIter(completed)

    def imap(self, func, iterable, chunksize=1):
        chunks, completed = self._schedule(func, iterable, chunksize)
        return _ResultIter(sorted(completed, key=lambda c: c[0]))

    def map(self, func, iterable, chunksize=None):
        items = list(iterable)
        if chunksize is None:
            chunksize, extra = divmod(len(items), self.processes * 4)
            if extra:
                chunksize += 1
            chunksize = max(1, chunksize)
        chunks, completed = self._schedule(func, items, chunksize)
        out = []
        for ci, status, payload in sorted(completed, key=lambda c: c[0]):
            if status == "exc":
                raise payload
            out.extend(payload)
        return out

    def apply_async(self, func, args=(), kwds=None):
        chunks, completed = self._schedule(lambda a: func(*a, **(kwds or {})), [args], 1)
        return _Async(completed[0])

    def apply(self, func, args=(), kwds=None):
        return self.apply_async(func, args, kwds).get()

    # ---- life cycle -----------------------------------------------------------------------
    def close(self):
        self.closed = True

    def terminate(self):
        self.terminated = True

    def join(self):
        if not (self.closed or self.terminated):
            raise ValueError("Pool is still running")
        self.joined = True

    def __enter__(self):
        if self.closed or self.terminated:
            raise ValueError("Pool not running")
        return self

    def __exit__(self, *exc):
        self.terminate()


class _ResultIter:
    def __init__(self, completed):
        self._flat = []
        for ci, status, payload in completed:
            if status == "exc":
                self._flat.append(("exc", payload))
            else:
                self._flat.extend(("ok", x) for x in payload)
        self._i = 0

    def __iter__(self):
        return self

    def __next__(self):
        if self._i >= len(self._flat):
            raise StopIteration
        s, v = self._flat[self._i]
        self._i += 1
        if s == "exc":
            raise v
        return v

    next = __next__


class _Async:
    def __init__(self, done):
        self._done = done

    def get(self, timeout=None):
        ci, status, payload = self._done
        if status == "exc":
            raise payload
        return payload[0]

    def ready(self):
        return True

    def wait(self, timeout=None):
        return None

    def successful(self):
        return self._done[1] == "ok"


class _MPShim:
    """What `cobra.util.process_pool.multiprocessing` is rebound to."""

    Pool = SimPool

    @staticmethod
    def cpu_count():
        return 16


# ------------------------------------------------------------------------------------------
# solver-verdict injector

VERDICTS = ("infeasible", "unbounded", "undefined", "time_limit", "feasible")
_orig_optimize = None


def _optimize_wrapper(self):
    ctx = CTX
    self.__dict__["_verif_null_value"] = False
    status = _orig_optimize(self)
    if ctx is None:
        return status
    ctx.solver_calls += 1
    k = ctx.solver_calls
    ctx.call_log.append((k, ctx.current_worker))
    f = ctx.fault
    if f is not None and f["k"] == k:
        ctx.fault_fired += 1
        ctx.bump(f"fault:{f['verdict']}")
        ctx.bump("fault_in_worker" if ctx.current_worker is not None else "fault_in_parent")
        self._status = f["verdict"]
        if f.get("null_value"):
            # as the CPLEX/Gurobi interfaces do after a failed solve: no objective value at all
            self.__dict__["_verif_null_value"] = True
            ctx.bump("fault:null_objective_value")
        return f["verdict"]
    return status


_orig_value = None


def _value_wrapper(self):
    prob = getattr(self, "problem", None)
    if prob is not None and prob.__dict__.get("_verif_null_value"):
        return None
    return _orig_value.fget(self)


def install():
    global _orig_optimize
    import optlang.interface as oi

    import cobra.util.process_pool as pp

    global _orig_value
    if _orig_optimize is None:
        import optlang.glpk_interface as gi

        _orig_optimize = oi.Model.optimize
        oi.Model.optimize = _optimize_wrapper
        _orig_value = gi.Objective.__dict__["value"]
        gi.Objective.value = property(_value_wrapper)
    pp.multiprocessing = _MPShim
    global _orig_shared
    if _orig_shared is None:
        import cobra.sampling as cs
        import cobra.sampling.hr_sampler as hs
        import cobra.sampling.optgp as og

        _orig_shared = hs.shared_np_array
        for mod in (cs, hs, og):
            if getattr(mod, "shared_np_array", None) is _orig_shared:
                mod.shared_np_array = _shared_np_array_wrapper


def begin_run(streams=None, schedule=None, stats=None):
    global CTX
    install()
    CTX = SimContext(streams, schedule, stats)
    return CTX


def end_run():
    global CTX
    CTX = None
