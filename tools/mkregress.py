#!/venv/bin/python
"""Hand-written regression replays for repairs the per-commit harvest could not isolate (masked by other defects at the
parent commit).  Each is verified here: must FAIL on the parent of the fix and PASS on the fix."""
import json, os, subprocess, sys
W = "/tmp/verif-mkregress-wt"

def model(rxns, objective=None, direction="max", mets=None, solver="glpk"):
    ids = sorted({m for r in rxns for m, _ in r["mets"]})
    return {"id": "m0", "name": None, "comps": {}, "mets": mets or [{"id": i, "name": "", "formula": None, "charge": None, "compartment": "c"} for i in ids],
            "rxns": rxns, "objective": objective or {rxns[0]["id"]: 1}, "direction": direction, "groups": [], "solver": solver}

def rx(i, mets, lb=0, ub=1000, tree=None):
    return {"id": i, "name": "", "subsystem": "", "lb": lb, "ub": ub, "mets": mets, "tree": tree}

SW = {"max_mets": 3, "max_rxns": 3, "n_genes": 3, "p_rule": 0.5, "p_groups": 0, "p_invalid": 0, "solver": "glpk", "steps": 5, "weights": {}}
CASES = {
 "c0300db": ("C11", "restart_equal", model([rx("R0", [["A", -1], ["B", 1]], tree="g1")]),
             [{"op": "set_rule", "actor": 0, "r": "R0", "tree": None, "rule": ""},
              {"op": "restart", "actor": 0, "fmt": "dict", "variant": "string", "sort": False, "Gw": [-1000.0, 1000.0], "Gr": [-1000.0, 1000.0]}]),
 "82ff1c5": ("C10", "restart_load_fails", model([rx("R0", [["A", -1], ["B", 1]], lb=100, ub=500)], mets=[{"id": "A", "name": "a", "formula": "H2O", "charge": 0, "compartment": "c"}, {"id": "B", "name": "b", "formula": "H2O", "charge": 0, "compartment": "c"}]),
             [{"op": "restart", "actor": 0, "fmt": "sbml", "variant": "string", "sort": False, "Gw": [-1000.0, 1000.0], "Gr": [-10.0, 10.0], "f_replace": "default"}]),
 "c38f276": ("C03", "ctx_restore", model([rx("R0", [["A", -1], ["B", 1]], lb=-10, ub=10), rx("R1", [["B", -1]], lb=0, ub=5)], objective={"R1": 1}),
             [{"op": "helper", "actor": 0, "name": "add_pfba", "fraction": 1.0}, {"op": "enter", "actor": 0},
              {"op": "remove_reactions", "actor": 0, "rs": ["R0"], "remove_orphans": False, "via": "model", "as": "obj"}, {"op": "exit", "actor": 0}]),
 "fde1738": ("C03", "ctx_restore", model([rx("R0", [["B", 1]], lb=1, ub=5)]),
             [{"op": "enter", "actor": 0}, {"op": "rxn_copy", "actor": 0, "r": "R0", "key": "d1"},
              {"op": "set_objective", "actor": 0, "how": "dict", "items": [["det:d1", 1]]}, {"op": "exit", "actor": 0}]),
 "f9a043a": ("C02", "xref", model([rx("EX_A", [["A", -1]], lb=-5, ub=5), rx("R0", [["A", -1], ["B", 1]], lb=-10, ub=10)], objective={"EX_A": 1}),
             [{"op": "remove_reactions", "actor": 0, "rs": ["R0"], "remove_orphans": False, "via": "model", "as": "obj"},
              {"op": "rxn_copy", "actor": 0, "r": "R0", "key": "d0", "src": "removed"}]),
 "7b59c9a": ("C03", "ctx_restore", model([rx("R0", [["A", -1], ["B", 1]], tree=["and", "g0", "g1"])]),
             [{"op": "enter", "actor": 0}, {"op": "repair", "actor": 0}, {"op": "exit", "actor": 0}]),
}
subj = {l.split(" ", 1)[0]: l.split(" ", 1)[1] for l in subprocess.check_output(["git", "-C", "/repo", "log", "--format=%h %s"]).decode().splitlines()}
subprocess.call(["git", "-C", "/repo", "worktree", "remove", "--force", W], stderr=subprocess.DEVNULL)
subprocess.check_call(["git", "-C", "/repo", "worktree", "add", "-f", "--detach", W, "HEAD"], stdout=subprocess.DEVNULL)
H = json.load(open("/verif/out/harvest.json")) if os.path.exists("/verif/out/harvest.json") else {}
try:
    for h, (prop, oracle, spec, ops) in CASES.items():
        body = {"property": prop, "engine": "hist", "oracle": oracle, "trace": {"engine": "hist", "cfg": {"model": spec, "swarm": SW, "hash_seed": 1}, "ops": ops},
                "violation": {"oracle": oracle, "culprit": ops[-1], "detail": "hand-written regression"}, "note": "hand-written regression replay; verified fail@parent pass@fix"}
        path = f"/verif/out/handmade-{h}-{prop}-{oracle}.json"
        json.dump(body, open(path, "w"), indent=1)
        res = []
        for rev in (h + "^", h):
            subprocess.check_call(["git", "-C", W, "checkout", "-q", "--detach", rev])
            env = dict(os.environ, VERIF_REPO_SRC=W + "/src", VERIF_QUIET="1", VERIF_NO_KNOWN="1")
            res.append(subprocess.call(["/verif/check", prop, "--replay", path], env=env, stdout=subprocess.DEVNULL, stderr=subprocess.DEVNULL))
        ok = res == [1, 0]
        print(h, prop, oracle, "parent->", res[0], "fix->", res[1], "OK" if ok else "NOT USABLE")
        if ok:
            H[path] = {"prop": prop, "oracle": oracle, "fixed_by": (h, subj[h]), "culprit": ops[-1], "detail": "hand-written regression", "nops": len(ops)}
finally:
    subprocess.call(["git", "-C", "/repo", "worktree", "remove", "--force", W])
json.dump(H, open("/verif/out/harvest.json", "w"), indent=1)
