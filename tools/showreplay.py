#!/venv/bin/python
import json,sys
for f in sys.argv[1:]:
    b=json.load(open(f))
    m=b['trace']['cfg']['model']
    print(f)
    print(' solver',m.get('solver'),'obj',m['objective'],m['direction'],'mets',[(x['id'],x['compartment']) for x in m['mets']], 'groups', m.get('groups'))
    for r in m['rxns']: print('   rxn',r['id'],r['lb'],r['ub'],r['mets'],gt if (gt:=r.get('tree')) else '')
    for o in b['trace']['ops']: print('   op',o)
    print('  =>',b['violation']['oracle'],b['violation']['detail'])
