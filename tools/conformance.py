#!/venv/bin/python
"""Stub conformance self-test: the same analyses on the same generated models with the REAL multiprocessing.Pool
(fork, 3 processes) and with SimPool must give the same frames.  Not a registered check (real processes =
real nondeterminism); run by ./selftest conformance."""
import os
import random
import signal
import sys

os.environ.setdefault("PYTHONHASHSEED", "0")
sys.path.insert(0, os.path.dirname(os.path.dirname(os.path.abspath(__file__))))
sys.path.insert(0, os.environ.get("VERIF_REPO_SRC", "/repo/src"))
import multiprocessing as real_mp  # noqa: E402

from sim import seams, simpool  # noqa: E402
from sim.core import Streams  # noqa: E402
from sim.engines import hist, pool  # noqa: E402


def norm(res):
    return res.get("unique")


def main(n):
    import cobra.util.process_pool as pp

    bad = 0
    done = 0
    for seed in range(n):
        rng = random.Random(seed)
        sw = pool.make_swarm(rng, "C14", {})
        spec = pool.gen_network(rng, sw)
        spec["solver"] = "glpk"
        calls = [("fva", {}), ("single_reaction_deletion", {}), ("double_gene_deletion", {}), ("blocked", {}),
                 ("essential_reactions", {})]
        for kind, args in calls:
            out = {}
            for mode in ("real", "sim"):
                seams.reset_world(Streams(seed))
                model = hist.build_model(spec)
                if mode == "real":
                    pp.multiprocessing = real_mp
                    simpool.CTX = None
                else:
                    simpool.begin_run(Streams(seed), None, {})
                signal.alarm(120)
                try:
                    out[mode] = ("ok", norm(pool.ANALYSES[kind](model, args, 3)))
                except Exception as e:
                    out[mode] = ("raised", type(e).__name__)
                finally:
                    signal.alarm(0)
                    if mode == "sim":
                        simpool.end_run()
                    pp.multiprocessing = simpool._MPShim
            done += 1
            a, b = out["real"], out["sim"]
            if a[0] != b[0] or (a[0] == "raised" and a[1] != b[1]) or (a[0] == "ok" and pool._compare_sig(("ok", a[1]), ("ok", b[1]))):
                bad += 1
                print(f"MISMATCH seed={seed} {kind}: real={str(a)[:200]} sim={str(b)[:200]}")
    print(f"conformance: {done} analysis calls on {n} models, {bad} mismatches between real Pool (fork, 3 processes) and SimPool")
    return 1 if bad else 0


if __name__ == "__main__":
    simpool.install()
    sys.exit(main(int(sys.argv[1]) if len(sys.argv) > 1 else 40))
