#!/bin/bash
# seedtest.sh <patchfile> <prop> [<prop>...] : apply a seeded change to /repo, run the quick checks, undo it straight afterwards.
patch=$1; shift
cd /repo && git diff --quiet || { echo "/repo has uncommitted changes"; exit 2; }
git apply $patch || { echo "patch does not apply to /repo"; exit 2; }
trap 'git -C /repo checkout -q -- .' EXIT
for p in "$@"; do
  cd /verif && VERIF_OUT=/verif/out3 VERIF_EVIDENCE_DIR=/verif/out3/ev timeout 1500 ./check $p ${TIER:-quick} 2>&1 | grep -E "^VIOLATION|quick:|thorough:|HARNESS" | cut -c1-220 | head -${MAXL:-4}
done
