#!/venv/bin/python
"""saveseed.py <PROP> <n|''> <seed-id> <caught_by comma list or 'none'> <needs text> [--patch path] [--note text]"""
import json, os, shutil, sys
P, N, SID, caught, needs = sys.argv[1:6]
extra = sys.argv[6:]
patch = f"/tmp/seed/{P}-out/patch{N}.diff"
note = ""
if "--patch" in extra:
    patch = extra[extra.index("--patch") + 1]
if "--note" in extra:
    note = extra[extra.index("--note") + 1]
O = f"/tmp/seed/{P}-out"
D = f"/verif/seeded/{SID}"
os.makedirs(D, exist_ok=True)
shutil.copy(patch, f"{D}/patch.diff")
shutil.copy(f"{O}/demo{N}.py", f"{D}/demo.py")
if os.path.exists(f"{O}/notes.md"):
    shutil.copy(f"{O}/notes.md", f"{D}/notes.md")
v = json.load(open(f"{O}/verify{N}.json")) if os.path.exists(f"{O}/verify{N}.json") else None
meta = {
    "id": SID, "property": P, "origin": "fresh sub-agent given only the property text and a scratch worktree",
    "needs_to_manifest": needs,
    "confirmed": {"demo_exit_with_change": v and v["demo_exit_with_change"], "demo_exit_without_change": v and v["demo_exit_without_change"],
                  "pinned_suite_stable_pass_missing_with_change": v and v["stable_pass_missing_with_change"],
                  "how": "tools/seedverify.sh: apply in scratch worktree, run demo (must fail), run full pytest suite and compare with "
                         "BASELINE stable_pass, revert, run demo (must pass)"},
    "caught_by": [] if caught == "none" else caught.split(","),
    "ran": "tools/seedtest.sh <patch> <checks>: git -C /repo apply, ./check <ID> quick, git -C /repo checkout -- .",
    "note": note,
}
json.dump(meta, open(f"{D}/meta.json", "w"), indent=1)
print("saved", D)
