#!/venv/bin/python
"""seedall.py [--jobs N] [--only substr]: re-run every seeded change in /verif/seeded against the checks its meta.json names
(or, for the ones recorded as not caught, against the check of its property), each in its own scratch worktree of /repo
(VERIF_REPO_SRC), and write /verif/seeded/RESULTS.json.  /repo itself is not touched."""
import concurrent.futures as cf
import glob
import json
import os
import subprocess
import sys
import time

args = sys.argv[1:]
jobs = int(args[args.index("--jobs") + 1]) if "--jobs" in args else 4
only = args[args.index("--only") + 1] if "--only" in args else ""
ROOT = "/tmp/verif-seedall"
seeds = sorted(d for d in glob.glob("/verif/seeded/*/") if only in d)


def work(slot_seed):
    slot, d = slot_seed
    sid = os.path.basename(d.rstrip("/"))
    meta = json.load(open(d + "meta.json"))
    W = f"{ROOT}/wt{slot}"
    out = f"{ROOT}/out{slot}"
    subprocess.call(["git", "-C", W, "checkout", "-q", "--", "."])
    if subprocess.call(["git", "-C", W, "apply", d + "patch.diff"], stderr=subprocess.DEVNULL) != 0:
        if subprocess.call(["git", "-C", W, "apply", "-C1", "--recount", d + "patch.diff"], stderr=subprocess.DEVNULL) != 0:
            return sid, {"applies": False}
    checks = meta.get("caught_by") or [meta["property"]]
    res = {"applies": True, "recorded_caught_by": meta.get("caught_by", []), "now": {}}
    env = dict(os.environ, VERIF_REPO_SRC=W + "/src", VERIF_OUT=out, VERIF_EVIDENCE_DIR=out + "/ev", VERIF_NPROC=str(max(2, 16 // jobs)),
               VERIF_MAX_REPORTS="2", VERIF_SHRINK="40")
    for c in checks:
        t = time.time()
        # first with an early stop (the campaign ends once 3 failing runs exist); a full campaign only if that reports nothing
        p = subprocess.run(["/verif/check", c, "quick"], env=dict(env, VERIF_STOP_ON_VIOLATION="3"), capture_output=True, text=True)
        if p.returncode != 1:
            p = subprocess.run(["/verif/check", c, "quick"], env=env, capture_output=True, text=True)
        res["now"][c] = {"rc": p.returncode, "violation_lines": sum(l.startswith("VIOLATION") for l in p.stdout.splitlines()),
                         "wall_s": round(time.time() - t, 1)}
        if p.returncode == 1:
            break  # caught: enough
    subprocess.call(["git", "-C", W, "checkout", "-q", "--", "."])
    return sid, res


os.makedirs(ROOT, exist_ok=True)
for s in range(jobs):
    subprocess.call(["git", "-C", "/repo", "worktree", "remove", "--force", f"{ROOT}/wt{s}"], stderr=subprocess.DEVNULL)
    subprocess.check_call(["git", "-C", "/repo", "worktree", "add", "-f", "--detach", f"{ROOT}/wt{s}", "HEAD"], stdout=subprocess.DEVNULL,
                          stderr=subprocess.DEVNULL)
results = {}
try:
    import queue
    import threading

    q = queue.Queue()
    for d in seeds:
        q.put(d)

    def runner(slot):
        while True:
            try:
                d = q.get_nowait()
            except queue.Empty:
                return
            sid, r = work((slot, d))
            results[sid] = r
            caught = [c for c, v in r.get("now", {}).items() if v["rc"] == 1]
            print(sid, "applies" if r["applies"] else "DOES-NOT-APPLY", "caught by", caught or "-", flush=True)

    th = [threading.Thread(target=runner, args=(s,)) for s in range(jobs)]
    [t.start() for t in th]
    [t.join() for t in th]
finally:
    for s in range(jobs):
        subprocess.call(["git", "-C", "/repo", "worktree", "remove", "--force", f"{ROOT}/wt{s}"])
    subprocess.call(["find", ROOT, "-depth", "-delete"])
head = subprocess.check_output(["git", "-C", "/repo", "rev-parse", "--short", "HEAD"]).decode().strip()
out_path = "/verif/seeded/RESULTS.json" if not only else f"/verif/seeded/RESULTS-{only.strip('-')}.json"  # a partial re-run does not replace the full table
json.dump({"repo_head": head, "only": only, "results": results}, open(out_path, "w"), indent=1, sort_keys=True)
n_caught = sum(any(v["rc"] == 1 for v in r.get("now", {}).values()) for r in results.values())
print(f"{len(results)} seeds, {n_caught} caught by a quick check, {sum(not r['applies'] for r in results.values())} do not apply")
