#!/bin/bash
# seedtest2.sh <PROP> <n|-> <check> [<check>...]: run quick checks against a seeded change applied in its scratch worktree
# /tmp/seed/<PROP> (VERIF_REPO_SRC), leaving /repo untouched; the worktree is reverted afterwards.
P=$1; N=$2; [ "$N" = "-" ] && N=""; shift; shift
W=/tmp/seed/$P; O=/tmp/seed/$P-out
git -C $W checkout -q -- . ; git -C $W apply $O/patch$N.diff || { echo "patch does not apply"; exit 2; }
trap "git -C $W checkout -q -- ." EXIT
for p in "$@"; do
  cd /verif && VERIF_REPO_SRC=$W/src VERIF_OUT=/verif/out3/$P VERIF_EVIDENCE_DIR=/verif/out3/$P/ev VERIF_NPROC=${NP:-8} VERIF_MAX_REPORTS=3 VERIF_SHRINK=${SHRINK:-60} \
    VERIF_STOP_ON_VIOLATION=${STOP:-3} timeout 1500 ./check $p ${TIER:-quick} 2>&1 | grep -E "^VIOLATION|quick:|thorough:|HARNESS" | cut -c1-${WIDTH:-260} | head -${MAXL:-4}
done
