#!/venv/bin/python
"""mkprompt.py <PROP> <round>: print the brief for a fresh sub-agent that is to write seeded changes for one property.
The brief contains the property text, the scratch worktree path and a list of *places* earlier rounds already used (so that the new
changes differ from them) - nothing about how /verif checks anything."""
import glob
import json
import os
import sys

P, R = sys.argv[1], sys.argv[2]
prop = next(json.loads(l) for l in open("/verif/properties.jsonl") if json.loads(l)["id"] == P)
taken = []
for d in sorted(glob.glob(f"/verif/seeded/{P}-*/")):
    files = sorted({l.split(" b/")[-1].strip() for l in open(d + "patch.diff") if l.startswith("diff --git")})
    funcs = sorted({l.split("@@")[-1].strip()[:70] for l in open(d + "patch.diff") if l.startswith("@@") and l.split("@@")[-1].strip()})
    taken.append(f"- {os.path.basename(d.rstrip('/'))}: {', '.join(files)} ({'; '.join(funcs[:3])})")
W, O = f"/tmp/seed/{P}", f"/tmp/seed/{P}-out"
extra = ""
if int(R) >= 5:
    extra = ("* This is a late round: the obvious places are taken. Prefer mechanisms that live on FAILURE PATHS or in STATE OVER TIME - a solver call that\n"
             "  ends non-optimal / raises at one particular point, an exception half-way through a multi-step update, state kept in a worker process,\n"
             "  a module-level or class-level cache, process-global configuration changed between two calls, an object reused after it was removed,\n"
             "  copied or pickled, the second call on the same object - over plain input-shape changes. At least one of your two changes should be of that kind.")
print(f"""You are helping to evaluate a verification harness for the Python library cobrapy (constraint-based metabolic modelling).
Your job: write TWO independent, realistic *defect-introducing changes* ("seeded changes") to cobrapy, each of which breaks the semantic
property quoted below while the code still imports, and the repository's existing test suite still passes. They will later be used
to find out whether an independently built checker notices them; you know nothing about that checker and must not try to find it.

## The property

id: {P}
title: {prop['title']}
statement: {prop['statement']}
quantifier: {prop['quantifier']['text']}
why tests cannot settle it: {prop['why_tests_cant']}
anchors (where the behaviour lives): {json.dumps(prop['anchors'], indent=1)}

## Where to work

* Your private scratch git worktree of the repository: {W} (source under {W}/src/cobra). Work ONLY there. Never touch /repo or /verif
  (do not even read /verif). Python: /venv/bin/python; run your code with PYTHONPATH={W}/src so that your worktree's cobra is imported
  (check with `python -c "import cobra; print(cobra.__file__)"`).
* Output directory (already exists): {O}. Write there:
  - patch.diff and patch2.diff  - `git -C {W} diff` of change 1 / change 2, each relative to the clean worktree (each patch alone, not stacked)
  - demo.py and demo2.py        - small stand-alone programs: exit status 0 on the unchanged code, non-zero (assert/exception) with the change applied
  - notes.md                    - for each change: what it breaks, why it looks like an honest mistake, what exactly is needed for it to manifest
* Existing tests: `cd {W} && mkdir -p {O}/tmp && TMPDIR={O}/tmp PYTHONPATH={W}/src /venv/bin/python -m pytest -q -p no:cacheprovider --timeout=900 -n 4 tests`
  (about 500 tests, several minutes; a handful of tests that need the network fail/skip on the unchanged code too - compare with a run on the
  clean worktree if unsure). Always prefix long commands with `timeout`. Never use pkill/killall. Never use `git stash` (the stash is shared by all worktrees of the
  repository and other people work in sibling worktrees) - use `git diff > file; git checkout -- .; git apply file`. Leave the worktree CLEAN (git checkout -- .)
  when you finish; the patches are what counts.

## What kind of change

* Realistic: something a maintainer could plausibly write in a refactoring, an optimisation, a "clean-up" or a bug fix gone slightly wrong.
  Small (1-15 lines). It must keep compiling and keep every existing test passing.
* It must NOT be exposed by ordinary use at once. It has to need something specific to manifest: a particular interleaving or worker
  schedule, a solver failure or exception at a particular point, a multi-step sequence of operations, an unusual (but legal) input,
  a particular configuration, or two cooperating sites that each look fine alone.
* The two changes must use different mechanisms in different functions.
{extra}
* Earlier rounds already used the following places - do something DIFFERENT (other functions or clearly other mechanisms); look for the
  less obvious places the property also depends on:
{chr(10).join(taken) if taken else '- (none)'}

## Finish

Verify each change yourself: demo fails with it, passes without it, full test suite still passes with it. Then reply with a short
summary: for each change the file/function, the mechanism, and what is needed to trigger it. If you discover on the way that the
UNCHANGED code already violates the property in some situation, describe that too (a by-catch) with a minimal reproduction in {O}/bycatch.py.
""")
