#!/bin/bash
# thorough_sweep.sh [cap_s] [nproc] [seed]: every claimed check in its thorough tier under a wall cap (for `vp run`); alarms only
cap=${1:-600}; np=${2:-8}
[ -n "$3" ] && export VERIF_SEED=$3
export VERIF_OUT=$PWD/out-sweep VERIF_EVIDENCE_DIR=$PWD/out-sweep/ev VERIF_WALL_CAP=$cap VERIF_NPROC=$np
for p in C13 C14 C05 C06 C16 C03 C01 C02 C04 C07 C10 C11 C12 C15; do
  timeout $((cap*4)) ./check $p thorough 2>&1 | grep -E "thorough:|^VIOLATION|HARNESS" | cut -c1-400
done
