#!/venv/bin/python
"""Per-commit harvest of regression replays.

For every 'fix:' commit c of /repo (oldest first): check out c^ in a scratch worktree, run the checks that can be
affected (chosen from the files c touches) against it with the known-findings file ignored, and keep every minimised
replay that FAILS at c^ and PASSES at c.  Appends to /verif/out/harvest.json (consumed by tools/mkknown.py).
Usage: harvest2.py [--only <hash-prefix,...>] [--runs-hist N] [--runs-pool N]
"""
import glob
import json
import os
import subprocess
import sys

W = "/tmp/verif-harvest2-wt"
OUT = "/verif/out-harvest"
args = sys.argv[1:]


def opt(name, default):
    return args[args.index(name) + 1] if name in args else default


only = opt("--only", "")
only = [x for x in only.split(",") if x]
RH, RP = opt("--runs-hist", "3000"), opt("--runs-pool", "400")
log = subprocess.check_output(["git", "-C", "/repo", "log", "--reverse", "--format=%h %s"]).decode().splitlines()
commits = [l.split(" ", 1) for l in log if l.split(" ", 1)[1].startswith("fix:")]
res_path = "/verif/out/harvest.json"
os.makedirs("/verif/out", exist_ok=True)
result = json.load(open(res_path)) if os.path.exists(res_path) else {}


def checks_for(h):
    files = subprocess.check_output(["git", "-C", "/repo", "show", "--name-only", "--format=", h]).decode().split()
    c = set()
    for f in files:
        if "dictlist" in f:
            c |= {"C15"}
        elif "/io/" in f:
            c |= {"C10", "C11"}
        elif "/sampling/" in f:
            c |= {"C16", "C14"}
        elif "/flux_analysis/" in f:
            c |= {"C05", "C13", "C14", "C06"}
        elif "/core/solution" in f:
            c |= {"C04"}
        else:
            c |= {"C01", "C02", "C03", "C07", "C12", "C10", "C11", "C04", "C13"}
    return sorted(c)


subprocess.call(["git", "-C", "/repo", "worktree", "remove", "--force", W], stderr=subprocess.DEVNULL)
subprocess.check_call(["git", "-C", "/repo", "worktree", "add", "-f", "--detach", W, "HEAD"], stdout=subprocess.DEVNULL)
try:
    for h, subj in commits:
        if only and not any(h.startswith(o) for o in only):
            continue
        if any(v.get("fixed_by") and v["fixed_by"][1] == subj for v in result.values()) and "--redo" not in args:
            continue
        for f in glob.glob(OUT + "/replays/*.json"):
            os.unlink(f)
        subprocess.check_call(["git", "-C", W, "checkout", "-q", "--detach", h + "^"])
        env = dict(os.environ, VERIF_REPO_SRC=W + "/src", VERIF_MAX_REPORTS="25", VERIF_SHRINK="200", VERIF_OUT=OUT,
                   VERIF_EVIDENCE_DIR=OUT + "/ev", VERIF_NO_KNOWN="1")
        for p in checks_for(h):
            e = dict(env, VERIF_RUNS=RP if p in ("C05", "C06", "C13", "C14") else RH)
            if p == "C13":
                e["VERIF_RUNS"] = "120"
            subprocess.call(["/verif/check", p, "quick"], env=e, stdout=subprocess.DEVNULL, stderr=subprocess.DEVNULL)
        reps = [f for f in sorted(glob.glob(OUT + "/replays/*.json")) if not f.endswith("-orig.json")]
        subprocess.check_call(["git", "-C", W, "checkout", "-q", "--detach", h])
        kept = 0
        for f in reps:
            prop = os.path.basename(f).split("-")[0]
            rc = subprocess.call(["/verif/check", prop, "--replay", f], env=dict(env, VERIF_QUIET="1"),
                                 stdout=subprocess.DEVNULL, stderr=subprocess.DEVNULL)
            if rc != 0:
                continue
            b = json.load(open(f))
            dst = f"/verif/out/harvest-{h}-{os.path.basename(f)}"
            json.dump(b, open(dst, "w"), indent=1)
            result[dst] = {"prop": prop, "oracle": b["oracle"], "fixed_by": (h, subj), "culprit": b["violation"].get("culprit"),
                           "detail": b["violation"].get("detail"), "nops": len(b["trace"].get("ops", []))}
            kept += 1
        print(h, subj[:70], "checks", checks_for(h), "replays", len(reps), "kept", kept, flush=True)
        json.dump(result, open(res_path, "w"), indent=1)
finally:
    subprocess.call(["git", "-C", "/repo", "worktree", "remove", "--force", W])
