#!/venv/bin/python
"""Harvest regression replays: run the checks against the *pinned* tree (scratch worktree), collect minimised
replays, and for each find the first 'fix:' commit of /repo at which it passes.  Output: out/harvest.json"""
import glob, json, os, shutil, subprocess, sys
W = "/tmp/verif-harvest-wt"
props = sys.argv[1].split(",")
runs = sys.argv[2] if len(sys.argv) > 2 else "3000"
commits = subprocess.check_output(["git", "-C", "/repo", "log", "--reverse", "--format=%h %s"]).decode().splitlines()
commits = [c.split(" ", 1) for c in commits]
subprocess.call(["git", "-C", "/repo", "worktree", "remove", "--force", W], stderr=subprocess.DEVNULL)
subprocess.check_call(["git", "-C", "/repo", "worktree", "add", "-f", "--detach", W, commits[0][0]], stdout=subprocess.DEVNULL)
out = {}
try:
    env = dict(os.environ, VERIF_REPO_SRC=W + "/src", VERIF_RUNS=runs, VERIF_MAX_REPORTS="40", VERIF_SHRINK="250",
               VERIF_EVIDENCE_DIR="/verif/out/harvest-ev", VERIF_NO_KNOWN="1")
    for f in glob.glob("/verif/out/replays/*.json"):
        os.unlink(f)
    for p in props:
        subprocess.call(["/verif/check", p, "quick"], env=env, stdout=subprocess.DEVNULL, stderr=subprocess.DEVNULL)
    reps = [f for f in sorted(glob.glob("/verif/out/replays/*.json")) if not f.endswith("-orig.json")]
    print(len(reps), "replays")
    for f in reps:
        prop = os.path.basename(f).split("-")[0]
        first = None
        for h, subj in commits:
            subprocess.check_call(["git", "-C", W, "checkout", "-q", "--detach", h])
            rc = subprocess.call(["/verif/check", prop, "--replay", f], env=dict(env, VERIF_QUIET="1"), stdout=subprocess.DEVNULL, stderr=subprocess.DEVNULL)
            if rc == 0:
                first = (h, subj)
                break
        b = json.load(open(f))
        out[f] = {"prop": prop, "oracle": b["oracle"], "fixed_by": first, "culprit": b["violation"].get("culprit"), "detail": b["violation"].get("detail"), "nops": len(b["trace"]["ops"])}
        print(os.path.basename(f), b["oracle"], (b["violation"].get("culprit") or {}).get("op"), "->", first)
finally:
    subprocess.call(["git", "-C", "/repo", "worktree", "remove", "--force", W])
json.dump(out, open("/verif/out/harvest.json", "w"), indent=1)
