#!/bin/bash
# Runs the repository's pinned test suite (guard off) and compares with BASELINE.json stable_pass.
cd /repo && env -u COBRAPY_VERIF timeout 3400 /venv/bin/python -m pytest -ra -q -p no:cacheprovider --timeout=900 --continue-on-collection-errors -n ${NPROC:-8} --junitxml=/tmp/baseline.junit.xml > /tmp/baseline.log 2>&1
/venv/bin/python - <<'PY'
import json, xml.etree.ElementTree as ET
base=set(json.load(open('/root/.vp/BASELINE.json'))['stable_pass'])
t=ET.parse('/tmp/baseline.junit.xml')
passed=set()
for tc in t.iter('testcase'):
    if not any(ch.tag in ('failure','error','skipped') for ch in tc):
        passed.add(f"{tc.get('classname')}::{tc.get('name')}")
missing=sorted(base-passed)
print(f"baseline stable_pass={len(base)} passed_now={len(passed)} missing={len(missing)}")
for m in missing[:40]: print("  MISSING", m)
PY
