#!/bin/bash
# Runs the repository's pinned test suite (guard off) and compares with BASELINE.json stable_pass.
cd /repo && env -u COBRAPY_VERIF timeout 3400 /venv/bin/python -m pytest -ra -q -p no:cacheprovider --timeout=900 --continue-on-collection-errors -n ${NPROC:-8} --junitxml=/tmp/baseline.junit.xml --ignore=tests/test_io/test_sbml.py > /tmp/baseline.log 2>&1
# test_sbml.py's module fixture writes to a fixed name in the temp directory: racy under xdist, so that file runs serially
cd /repo && env -u COBRAPY_VERIF timeout 1200 /venv/bin/python -m pytest -ra -q -p no:cacheprovider --timeout=900 --junitxml=/tmp/baseline2.junit.xml tests/test_io/test_sbml.py >> /tmp/baseline.log 2>&1
/venv/bin/python - <<'PY'
import json, xml.etree.ElementTree as ET
base=set(json.load(open('/root/.vp/BASELINE.json'))['stable_pass'])
passed=set()
import itertools
for tc in itertools.chain(ET.parse('/tmp/baseline.junit.xml').iter('testcase'), ET.parse('/tmp/baseline2.junit.xml').iter('testcase')):
    if not any(ch.tag in ('failure','error','skipped') for ch in tc):
        passed.add(f"{tc.get('classname')}::{tc.get('name')}")
missing=sorted(base-passed)
print(f"baseline stable_pass={len(base)} passed_now={len(passed)} missing={len(missing)}")
for m in missing[:40]: print("  MISSING", m)
PY
