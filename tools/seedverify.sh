#!/bin/bash
# seedverify.sh <PROP> <n>   (n = "" or 2): confirm a sub-agent's seeded change in its scratch worktree:
#   demo fails with the change, passes without; the change compiles and the pinned suite (stable_pass) still passes.
P=$1; N=$2; W=/tmp/seed/$P; O=/tmp/seed/$P-out
cd $W || exit 2
git checkout -q -- . ; git apply $O/patch$N.diff || { echo "patch does not apply"; exit 2; }
PYTHONPATH=$W/src timeout 600 /venv/bin/python $O/demo$N.py > $O/demo$N.with.log 2>&1; with=$?
mkdir -p $O/tmp; PYTHONPATH=$W/src TMPDIR=$O/tmp env -u COBRAPY_VERIF timeout 3000 /venv/bin/python -m pytest -q -p no:cacheprovider --timeout=900 -n ${NPROC:-6} --junitxml=$O/junit$N.xml --ignore=tests/test_io/test_sbml.py tests > $O/pytest$N.log 2>&1
PYTHONPATH=$W/src TMPDIR=$O/tmp env -u COBRAPY_VERIF timeout 1200 /venv/bin/python -m pytest -q -p no:cacheprovider --timeout=900 --junitxml=$O/junit${N}b.xml tests/test_io/test_sbml.py >> $O/pytest$N.log 2>&1
git checkout -q -- .
PYTHONPATH=$W/src timeout 600 /venv/bin/python $O/demo$N.py > $O/demo$N.without.log 2>&1; without=$?
/venv/bin/python - $P "$N" $with $without <<'PY'
import json, sys, xml.etree.ElementTree as ET
P, N, w, wo = sys.argv[1], sys.argv[2], int(sys.argv[3]), int(sys.argv[4])
O = f"/tmp/seed/{P}-out"
base = set(json.load(open('/root/.vp/BASELINE.json'))['stable_pass'])
passed = set()
import itertools
for tc in itertools.chain(ET.parse(f"{O}/junit{N}.xml").iter('testcase'), ET.parse(f"{O}/junit{N}b.xml").iter('testcase')):
    if not any(ch.tag in ('failure', 'error', 'skipped') for ch in tc):
        passed.add(f"{tc.get('classname')}::{tc.get('name')}")
missing = sorted(base - passed)
res = {"property": P, "n": N or "1", "demo_exit_with_change": w, "demo_exit_without_change": wo,
       "stable_pass_total": len(base), "stable_pass_missing_with_change": missing,
       "ok": w != 0 and wo == 0 and not missing}
json.dump(res, open(f"{O}/verify{N}.json", "w"), indent=1)
print(json.dumps(res)[:400])
PY
