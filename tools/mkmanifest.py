#!/venv/bin/python
"""Regenerate /verif/MANIFEST.json from sim/props.py (single source of truth)."""
import json
import os
import subprocess
import sys

HERE = os.path.dirname(os.path.dirname(os.path.abspath(__file__)))
sys.path.insert(0, HERE)
from sim.props import PROPS, NOT_APPLICABLE, ENGINES  # noqa: E402

baseline = json.load(open("/root/.vp/BASELINE.json"))["cmd"]
fix_commits = subprocess.check_output(
    ["git", "-C", "/repo", "log", "--format=%h %s"]).decode().splitlines()
hook_commits = [l.split()[0] for l in fix_commits if l.split(" ", 1)[1].startswith("verif-hook:")]

checks = []
for pid in sorted(PROPS):
    s = PROPS[pid]
    checks.append({
        "property_id": pid,
        "quick_cmd": f"./check {pid} quick",
        "thorough_cmd": f"./check {pid} thorough",
        "evidence_file": f"/verif/evidence/{pid}.json",
        "replay_cmd_template": f"./check {pid} --replay {{path}}",
        "engine": s["engine"],
        "level_claimed": {"category": s["level"], "text": s["level_text"], "design_ref": s["design_ref"]},
        "level_note": s["level_note"],
        "technique": s["technique"],
    })
m = {
    "version": 1,
    "setup_cmd": "/venv/bin/python -c \"import cobra, swiglpk, optlang, libsbml, ruamel.yaml\" && ./selftest smoke",
    "hooks": {
        "guard": "COBRAPY_VERIF",
        "enable": "none needed: every seam is installed by the harness by monkeypatching at import time (the check sets COBRAPY_VERIF=1 but no code in /repo reads it); /repo is imported from its working tree (${VERIF_REPO_SRC:-/repo/src} first on sys.path), nothing is built",
        "baseline_off_cmd": baseline.replace("--junitxml=<file>", "").strip(),
        "source_commits": hook_commits,
        "add_only": True,
    },
    "engines": [{"name": n, "path": f"sim/engines/{n}.py", "serves_properties": sorted(p for p in PROPS if PROPS[p]["engine"] == n),
                 "kind_free_text": t} for n, t in ENGINES.items()],
    "checks": checks,
    "not_applicable": [{"property_id": k, "reason": v} for k, v in sorted(NOT_APPLICABLE.items())],
    "notes": "Deterministic simulation with fault injection; see DESIGN.md. Defect repairs in /repo are unguarded 'fix:' commits listed in known_findings.json (status=fixed).",
}
json.dump(m, open(os.path.join(HERE, "MANIFEST.json"), "w"), indent=1)
print("MANIFEST.json written:", [c["property_id"] for c in checks])
