#!/venv/bin/python
"""Merge out/harvest.json into known_findings.json: per fixing commit keep the smallest replays
(one per property/oracle), copy them to known/, add 'fixed' entries (regression corpus)."""
import json, os, shutil, subprocess, sys
H = json.load(open("/verif/out/harvest.json"))
K = json.load(open("/verif/known_findings.json"))
subj2hash = {}
for l in subprocess.check_output(["git", "-C", "/repo", "log", "--format=%h %s"]).decode().splitlines():
    h, s = l.split(" ", 1)
    subj2hash[s] = h
have = {(f["property"], f.get("commit_subject"), f["oracle"]) for f in K["findings"] if f["status"] == "fixed"}
best = {}
for path, d in H.items():
    if not d["fixed_by"]:
        continue
    subj = d["fixed_by"][1]
    key = (d["prop"], subj, d["oracle"])
    if key not in best or d["nops"] < best[key][1]["nops"]:
        best[key] = (path, d)
n = 0
for (prop, subj, oracle), (path, d) in sorted(best.items()):
    if (prop, subj, oracle) in have or subj not in subj2hash:
        continue
    h = subj2hash[subj]
    name = f"{prop}-{h}-{oracle}"
    dst = f"/verif/known/{name}.json"
    b = json.load(open(path))
    b["note"] = "regression replay of a repaired defect; must pass"
    json.dump(b, open(dst, "w"), indent=1)
    what = subj[len("fix: "):]
    det = json.dumps(d["detail"], default=str)[:300]
    K["findings"].append({"id": f"FX-{prop}-{h}-{oracle}", "property": prop, "status": "fixed", "commit": h, "commit_subject": subj,
                          "oracle": oracle, "replay": f"known/{name}.json", "what": f"{what} [observed: {det}]",
                          "line": f"fixed: property={prop} {h} {what}"})
    n += 1
json.dump(K, open("/verif/known_findings.json", "w"), indent=1)
print("added", n, "fixed entries; total", len(K["findings"]))
