#!/usr/bin/env python3
"""repofix.py <file-relative-to-/repo> <message-file> : apply OLD/NEW replacement blocks read from stdin.
stdin format: blocks separated by lines '=====', each block 'OLD\n-----\nNEW'."""
import subprocess, sys
path = "/repo/" + sys.argv[1]
msg = open(sys.argv[2]).read()
s = open(path).read()
blocks = sys.stdin.read().split("\n=====\n")
for b in blocks:
    old, new = b.split("\n-----\n")
    old = old.strip("\n") + "\n"; new = new.strip("\n") + "\n"
    assert s.count(old) == 1, ("not unique/absent", old[:80], s.count(old))
    s = s.replace(old, new)
open(path, "w").write(s)
subprocess.check_call(["git", "-C", "/repo", "commit", "-qam", msg])
print(subprocess.check_output(["git", "-C", "/repo", "log", "--oneline", "-1"]).decode())
