#!/venv/bin/python
"""addregress.py <fix-commit> <replay.json> [...]: register minimised replays found by a check as regression replays of a
repair: each must FAIL on the parent of the fix and PASS on the fix (both checked here in a scratch worktree)."""
import json, os, subprocess, sys
W = "/tmp/verif-addregress-wt"
h = subprocess.check_output(["git", "-C", "/repo", "rev-parse", "--short", sys.argv[1]]).decode().strip()
subj = subprocess.check_output(["git", "-C", "/repo", "log", "-1", "--format=%s", h]).decode().strip()
H = json.load(open("/verif/out/harvest.json")) if os.path.exists("/verif/out/harvest.json") else {}
subprocess.call(["git", "-C", "/repo", "worktree", "remove", "--force", W], stderr=subprocess.DEVNULL)
subprocess.check_call(["git", "-C", "/repo", "worktree", "add", "-f", "--detach", W, h], stdout=subprocess.DEVNULL)
try:
    env = dict(os.environ, VERIF_REPO_SRC=W + "/src", VERIF_NO_KNOWN="1", VERIF_QUIET="1", VERIF_OUT="/verif/out-harvest",
               VERIF_EVIDENCE_DIR="/verif/out-harvest/ev")
    for f in sys.argv[2:]:
        b = json.load(open(f))
        prop = b["property"]
        subprocess.check_call(["git", "-C", W, "checkout", "-q", "--detach", h + "^"])
        before = subprocess.call(["/verif/check", prop, "--replay", f], env=env, stdout=subprocess.DEVNULL, stderr=subprocess.DEVNULL)
        subprocess.check_call(["git", "-C", W, "checkout", "-q", "--detach", h])
        after = subprocess.call(["/verif/check", prop, "--replay", f], env=env, stdout=subprocess.DEVNULL, stderr=subprocess.DEVNULL)
        print(f, "parent rc", before, "fix rc", after)
        if before == 1 and after == 0:
            dst = f"/verif/out/harvest-{h}-{os.path.basename(f)}"
            json.dump(b, open(dst, "w"), indent=1)
            H[dst] = {"prop": prop, "oracle": b["oracle"], "fixed_by": (h, subj), "culprit": b["violation"].get("culprit"),
                      "detail": b["violation"].get("detail"), "nops": len(b["trace"].get("ops", []))}
finally:
    subprocess.call(["git", "-C", "/repo", "worktree", "remove", "--force", W])
json.dump(H, open("/verif/out/harvest.json", "w"), indent=1)
