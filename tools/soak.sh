#!/bin/bash
# soak.sh <seed-list> [tier]: every check under several VERIF_SEED values; alarms are collected in out-soak/
cd /verif
export VERIF_OUT=/verif/out-soak VERIF_EVIDENCE_DIR=/verif/out-soak/ev
for s in $1; do for p in C01 C02 C03 C04 C05 C06 C07 C10 C11 C12 C13 C14 C15 C16; do
  VERIF_SEED=$s timeout 3000 ./check $p ${2:-quick} 2>&1 | grep -E "quick:|thorough:|^VIOLATION|HARNESS" | sed -E "s/^/seed=$s /" | cut -c1-260
done; done
