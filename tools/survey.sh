#!/bin/bash
# survey.sh <runs> <props...> : run checks, then show minimised replays
cd /verif
export VERIF_OUT=${VERIF_OUT:-/verif/out}
find $VERIF_OUT/replays -name '*.json' -delete 2>/dev/null
runs=$1; shift
for p in "$@"; do VERIF_RUNS=$runs VERIF_MAX_REPORTS=30 VERIF_SHRINK=150 timeout 1500 ./check $p quick 2>&1 | grep -E "quick:|HARNESS" | cut -c1-400; done
ls $VERIF_OUT/replays/*.json 2>/dev/null | grep -v orig | xargs -r tools/showreplay.py 2>&1 | grep -v WARNING | cut -c1-${WIDTH:-500}
