#!/bin/bash
# survey.sh <runs> <props...> : run checks, then show minimised replays
cd /verif
find /verif/out/replays -name '*.json' -delete 2>/dev/null
runs=$1; shift
for p in "$@"; do VERIF_RUNS=$runs VERIF_MAX_REPORTS=30 VERIF_SHRINK=150 timeout 1500 ./check $p quick 2>&1 | grep -E "quick:|HARNESS" | cut -c1-400; done
ls out/replays 2>/dev/null | grep -v orig | sed 's/^/out\/replays\//' | xargs -r tools/showreplay.py 2>&1 | grep -v WARNING | cut -c1-${WIDTH:-500}
